(* Proofs about FUModel.  Statements are fixed by Properties_C08.v. *)
From Coq Require Import ZArith List Bool Lia.
Require Import Verif.Base.Atomics Verif.Gen.Gen_future Verif.Conc.Machine Verif.FU.FUModel.
Import ListNotations.
Local Open Scope Z_scope.

(* ---- vocabulary used by the statements (do not change) ---- *)
Definition Reach (latch : Z) (progs : list (list op)) (s : st) : Prop :=
  reachable st step (init latch progs) s.

Definition is_set (o : op) : bool := match o with OSet => true | _ => false end.
Definition is_down (o : op) : bool := match o with ODown _ => true | _ => false end.
Definition down_amount (o : op) : Z := match o with ODown d => d | _ => 0 end.
Definition all_ops (progs : list (list op)) : list op := concat progs.

(* documented usage: a promise is set at most once (plain mode, latch = 0, no count_down), or the
   object is a latch (latch > 0): no direct set_value, every count_down positive, total <= count *)
Definition wf (latch : Z) (progs : list (list op)) : Prop :=
  (latch = 0 /\ (length (filter is_set (all_ops progs)) <= 1)%nat /\ filter is_down (all_ops progs) = [])
  \/ (0 < latch /\ filter is_set (all_ops progs) = [] /\
      Forall (fun o => is_down o = true -> 0 < down_amount o) (all_ops progs) /\
      fold_right Z.add 0 (map down_amount (all_ops progs)) <= latch).

Definition setting (th : thread) : bool :=
  match tpc th with SetFutex _ | SetWake _ | SetRun _ => true | _ => false end.
Definition wake_pending (th : thread) : bool :=
  match tpc th with SetFutex _ | SetWake _ => true | _ => false end.
Definition parked (th : thread) : bool :=
  match tpc th with GetBlocked | WaitBlocked _ _ => true | _ => false end.

(* memory-order obligations on the regenerated site tables *)
Definition orders_ok : bool :=
  match sites_seal, sites_set_value, sites_get, sites_on_finish, sites_wait_slow, sites_wait_for_slow, sites_count_down with
  | [(KXchg, o_seal, _)], [(KXchg, o_fx, _)], [(KLoad, o_get, _)],
    [(KLoad, o_of_load, _); (_, o_of_cas, _)], [(KFadd, o_ws_add, _); (KLoad, o_ws_load, _)],
    [(KFadd, o_wf_add, _); (KLoad, o_wf_load, _)], [(KFsub, o_cd, _)] =>
    has_release o_seal && has_acquire o_seal && has_release o_fx && has_acquire o_get &&
    has_acquire o_of_load && has_release o_of_cas && has_acquire o_of_cas &&
    has_acquire o_ws_add && has_acquire o_ws_load && has_acquire o_wf_add && has_acquire o_wf_load &&
    has_release o_cd && has_acquire o_cd
  | _, _, _, _, _, _, _ => false
  end.

(* ======================================================================================== *)
(* Proofs                                                                                   *)
(* ======================================================================================== *)
From Coq Require Import ZifyBool Arith PeanoNat.

(* ---- the generated formulas, restated (each proof breaks if the C++ expression changes) ---- *)
Lemma wake_needed_spec : forall n, wake_needed n = true <-> 0 < n.
Proof. intro n. unfold wake_needed. rewrite Z.gtb_lt. reflexivity. Qed.
Lemma wait_for_clamp_spec : forall t, wait_for_clamp t = Z.max 0 t.
Proof. reflexivity. Qed.
Lemma timed_out_spec : forall x, timed_out x = true <-> x <= 0.
Proof. intro x. unfold timed_out. apply Z.leb_le. Qed.
Lemma remaining_spec : forall u n, remaining u n = u - n.
Proof. reflexivity. Qed.
Lemma latch_fires_spec : forall c, latch_fires c = true <-> c = 0.
Proof. intro c. unfold latch_fires. apply Z.eqb_eq. Qed.

(* ---- lists ---- *)
Lemma nth_error_set_nth_eq : forall A (l : list A) t x y, nth_error l t = Some y -> nth_error (set_nth t x l) t = Some x.
Proof. induction l as [|a l IH]; intros [|t] x y H; cbn in *; try discriminate; eauto. Qed.
Lemma nth_error_set_nth_neq : forall A (l : list A) t t' x, t' <> t -> nth_error (set_nth t x l) t' = nth_error l t'.
Proof. induction l as [|a l IH]; intros [|t] [|t'] x H; cbn in *; try reflexivity; try congruence. apply IH. congruence. Qed.
Lemma Forall_set_nth : forall A (P : A -> Prop) l t x, Forall P l -> P x -> Forall P (set_nth t x l).
Proof. induction l as [|a l IH]; intros [|t] x Hl Hx; cbn; inversion Hl; subst; auto. Qed.
Lemma map_set_nth : forall A B (f : A -> B) l t x y, nth_error l t = Some y -> f x = f y -> map f (set_nth t x l) = map f l.
Proof. induction l as [|a l IH]; intros [|t] x y H E; cbn in *; try discriminate; [congruence|]. f_equal. eauto. Qed.
Lemma In_set_nth : forall A (l : list A) t x y, In y (set_nth t x l) -> y = x \/ In y l.
Proof. induction l as [|a l IH]; intros [|t] x y H; cbn in *; try tauto; destruct H as [H|H]; auto. apply IH in H. tauto. Qed.
Lemma In_skipn : forall A n (l : list A) x, In x (skipn n l) -> In x l.
Proof. induction n as [|n IH]; intros [|a l] x H; cbn in *; auto. Qed.
Lemma skipn_cur : forall A i (l : list A),
  skipn i l = match nth_error l i with Some x => x :: skipn (S i) l | None => skipn (S i) l end.
Proof. induction i as [|i IH]; intros [|a l]; cbn; try reflexivity. rewrite IH. destruct l; reflexivity || (destruct (nth_error _ i); reflexivity). Qed.

(* ---- sums over the thread list ---- *)
Definition b2z (b : bool) : Z := if b then 1 else 0.
Fixpoint tsum (f : thread -> Z) (l : list thread) : Z := match l with [] => 0 | x :: r => f x + tsum f r end.

Lemma tsum_set_nth : forall f l t th th', nth_error l t = Some th -> tsum f (set_nth t th' l) = tsum f l - f th + f th'.
Proof. induction l as [|a l IH]; intros [|t] th th' H; cbn in *; try discriminate. - injection H as <-. lia. - rewrite (IH _ _ th' H). lia. Qed.
Lemma tsum_map : forall f g, (forall th, f (g th) = f th) -> forall l, tsum f (map g l) = tsum f l.
Proof. intros f g H; induction l as [|a l IH]; cbn; [reflexivity | rewrite H, IH; reflexivity]. Qed.
Lemma tsum_nonneg_in : forall f l, (forall th, In th l -> 0 <= f th) -> 0 <= tsum f l.
Proof. induction l as [|a l IH]; intros H; cbn; [lia|]. assert (0 <= f a) by (apply H; left; reflexivity). assert (0 <= tsum f l) by (apply IH; intros; apply H; right; assumption). lia. Qed.
Lemma tsum_ge_in : forall f l, (forall th, In th l -> 0 <= f th) -> forall th, In th l -> f th <= tsum f l.
Proof.
  induction l as [|a l IH]; intros H th Hin; cbn; [destruct Hin|].
  assert (0 <= f a) by (apply H; left; reflexivity).
  assert (0 <= tsum f l) by (apply tsum_nonneg_in; intros; apply H; right; assumption).
  destruct Hin as [->|Hin]; [lia|]. assert (f th <= tsum f l) by (apply IH; [intros; apply H; right; assumption | assumption]). lia.
Qed.
Lemma tsum_le : forall f g l, (forall th, In th l -> f th <= g th) -> tsum f l <= tsum g l.
Proof. induction l as [|a l IH]; intros H; cbn; [lia|]. assert (f a <= g a) by (apply H; left; reflexivity). assert (tsum f l <= tsum g l) by (apply IH; intros; apply H; right; assumption). lia. Qed.
Lemma tsum_zero : forall f l, (forall th, In th l -> f th = 0) -> tsum f l = 0.
Proof. induction l as [|a l IH]; intros H; cbn; [reflexivity|]. rewrite (H a), IH; [reflexivity | intros; apply H; right; assumption | left; reflexivity]. Qed.

(* ---- case analysis of one step ---- *)
Ltac split_ifs H :=
  repeat match type of H with
  | context [if ?c then _ else _] => destruct c eqn:?
  | context [match hd ?s with HList _ => _ | HSealed => _ end] => destruct (hd s) eqn:?
  end.

Ltac step_cases H :=
  unfold step in H;
  match type of H with context [nth_error (threads ?s) ?t] =>
    let th := fresh "th" in let Hth := fresh "Hth" in
    destruct (nth_error (threads s) t) as [th|] eqn:Hth;
    [ unfold step_thread' in H;
      let Hpc := fresh "Hpc" in let Hop := fresh "Hop" in
      destruct (tpc th) eqn:Hpc;
      [ let o := fresh "o" in destruct (nth_error (prog th) (opi th)) as [o|] eqn:Hop; [destruct o|];
        unfold step_thread in H; rewrite ?Hpc, ?Hop in H
      | unfold step_thread in H; rewrite Hpc in H .. ];
      cbv zeta in H; cbn [fst snd] in H; split_ifs H; try discriminate H; injection H as <-
    | destruct (Nat.eqb t (length (threads s))) eqn:?; [injection H as <- | discriminate H] ]
  end.

Ltac proj :=
  cbn [threads hd fready fcnt count clock vset ran registered early upd_thread with_shared run_cbs wake_all begin_set
       prog opi tpc results wstart wtmo goto finish_op].
Ltac proj_in H :=
  cbn [threads hd fready fcnt count clock vset ran registered early upd_thread with_shared run_cbs wake_all begin_set
       prog opi tpc results wstart wtmo goto finish_op] in H.

(* ---- theorems that need no invariant ---- *)
Ltac split_goal_ifs :=
  repeat match goal with
  | |- context [if ?c then _ else _] => destruct c
  | |- context [match hd ?s with HList _ => _ | HSealed => _ end] => destruct (hd s)
  end.

Lemma fu_unparked_enabled : forall latch progs s t th, wf latch progs -> Reach latch progs s ->
  nth_error (threads s) t = Some th -> thread_done th = false -> parked th = false -> step s t <> None.
Proof.
  intros latch progs s t th _ _ Hth Hd Hp. unfold step. rewrite Hth. unfold step_thread', thread_done, parked in *.
  destruct (tpc th) eqn:Hpc; try discriminate Hp.
  1: { destruct (nth_error (prog th) (opi th)) as [o|] eqn:Hop; [|discriminate Hd].
       destruct o; unfold step_thread; rewrite ?Hpc, ?Hop; cbv zeta; split_goal_ifs; discriminate. }
  all: unfold step_thread; rewrite Hpc; cbv zeta; split_goal_ifs; discriminate.
Qed.

Lemma fu_timed_released : forall latch progs s t th u d, wf latch progs -> Reach latch progs s ->
  nth_error (threads s) t = Some th -> tpc th = WaitBlocked u d -> d <= clock s -> step s t <> None.
Proof.
  intros latch progs s t th u d _ _ Hth Hpc Hd. unfold step. rewrite Hth. unfold step_thread'. rewrite Hpc.
  unfold step_thread. rewrite Hpc. apply Z.leb_le in Hd. rewrite Hd. discriminate.
Qed.

Lemma fu_orders_ok : orders_ok = true.
Proof. vm_compute. reflexivity. Qed.

Lemma fu_ready_mask : READY_MASK = 2 ^ 31.
Proof. vm_compute. reflexivity. Qed.

Lemma fu_wf_example : wf 0 [[OSet]; [OGet; OFin]; [OWait 2]].
Proof. left. cbn. repeat split; auto. Qed.

Lemma fu_reach_example :
  exists s, Reach 0 [[OSet]; [OGet; OFin]; [OWait 2]] s /\
            existsb parked (threads s) = true /\ existsb wake_pending (threads s) = true.
Proof.
  eexists. split; [exists [1; 1; 1; 0]%nat; reflexivity|]. vm_compute. split; reflexivity.
Qed.

(* ======================================================================================== *)
(* The invariant                                                                            *)
(* ======================================================================================== *)
Definition in_futex (th : thread) : bool := match tpc th with SetFutex _ => true | _ => false end.
Definition post (th : thread) : bool :=
  match tpc th with
  | GetWait _ | GetBlocked | GetReload | WaitWait _ _ _ | WaitBlocked _ _ | WaitReload _ | WaitClock2 _ _ => true
  | _ => false
  end.
Definition m_futex th := b2z (in_futex th).
Definition m_setting th := b2z (setting th).
Definition m_pend th := b2z (wake_pending th).
Definition m_park th := b2z (parked th).
Definition m_post th := b2z (post th).
(* callbacks detached by a setter *)
Definition slist (th : thread) : list cbid :=
  match tpc th with SetFutex l | SetWake l | SetRun l => l | _ => [] end.
(* operations not yet begun (the set_value / firing count_down in progress counts as begun) *)
Definition unstarted (th : thread) : list op :=
  if setting th then skipn (S (opi th)) (prog th) else skipn (opi th) (prog th).
Definition sumz (l : list Z) : Z := fold_right Z.add 0 l.
Definition m_set th := Z.of_nat (length (filter is_set (unstarted th))).
Definition m_down th := sumz (map down_amount (unstarted th)).

Definition res_ok (r : res) : Prop :=
  match r with
  | RGet b => b = true
  | RWait true _ _ _ rdy => rdy = true
  | RWait false tmo a b _ => tmo <= b - a
  | _ => True
  end.
Definition not_fin (th : thread) : Prop := nth_error (prog th) (opi th) <> Some OFin.
Definition bound (th : thread) (u : Z) : Prop := wstart th + wait_for_clamp (wtmo th) <= u.
Definition pc_loc (fr : bool) (clk : Z) (th : thread) : Prop :=
  match tpc th with
  | Idle | FinCas _ => True
  | SetFutex _ | SetWake _ | SetRun _ | GetAdd | GetBlocked | GetReload => not_fin th
  | GetWait v => not_fin th /\ fst v = false
  | WaitClock tmo => not_fin th /\ tmo = wait_for_clamp (wtmo th) /\ wstart th <= clk
  | WaitAdd u _ | WaitBlocked u _ | WaitReload u => not_fin th /\ bound th u
  | WaitWait u _ v => not_fin th /\ bound th u /\ fst v = false
  | WaitClock2 u v => not_fin th /\ bound th u /\ (fst v = true -> fr = true)
  end.
Definition Loc (fr : bool) (clk : Z) (th : thread) : Prop := Forall res_ok (results th) /\ pc_loc fr clk th.

Definition cb_dec : forall a b : cbid, {a = b} + {a <> b}.
Proof. decide equality; apply Nat.eq_dec. Defined.
Definition cnt (id : cbid) (l : list cbid) : Z := Z.of_nat (count_occ cb_dec l id).
Definition hlist (s : st) : list cbid := match hd s with HList l => l | HSealed => [] end.
Definition m_cb (id : cbid) (th : thread) : Z := cnt id (slist th).
Definition cbcount (id : cbid) (s : st) : Z := cnt id (ran s) + cnt id (hlist s) + tsum (m_cb id) (threads s).

Definition cb_inv (s : st) : Prop := forall id,
  cbcount id s <= 1 /\
  (1 <= cbcount id s -> exists th, nth_error (threads s) (fst id) = Some th /\ (snd id < opi th)%nat) /\
  (forall th, nth_error (threads s) (fst id) = Some th -> (snd id < opi th)%nat ->
              nth_error (prog th) (snd id) = Some OFin -> 1 <= cbcount id s).

Record Inv (latch : Z) (progs : list (list op)) (s : st) : Prop := {
  i_progs : map prog (threads s) = progs;
  i_loc : Forall (Loc (fready s) (clock s)) (threads s);
  i_futex : tsum m_futex (threads s) + b2z (fready s) <= b2z (vset s);
  i_setting : vset s = false -> tsum m_setting (threads s) = 0;
  i_sealed : vset s = true <-> hd s = HSealed;
  i_early : early s = false;
  i_park : 0 < tsum m_park (threads s) -> fready s = false \/ 0 < tsum m_pend (threads s);
  i_post : fready s = false -> tsum m_post (threads s) <= fcnt s;
  i_cb : cb_inv s;
  i_plain : latch = 0 -> tsum m_set (threads s) + b2z (vset s) <= 1;
  i_latch : 0 < latch -> tsum m_down (threads s) <= count s /\ (vset s = true <-> count s = 0)
}.

(* ---- basic facts about the measures ---- *)
Lemma b2z_range : forall b, 0 <= b2z b <= 1.
Proof. destruct b; cbn; lia. Qed.
Lemma cnt_nonneg : forall id l, 0 <= cnt id l.
Proof. intros; unfold cnt; lia. Qed.
Lemma cnt_nil : forall id, cnt id [] = 0.
Proof. reflexivity. Qed.
Lemma cnt_app : forall id a b, cnt id (a ++ b) = cnt id a + cnt id b.
Proof. intros; unfold cnt. rewrite count_occ_app. lia. Qed.
Lemma cnt_cons : forall id x l, cnt id (x :: l) = (if cb_dec x id then 1 else 0) + cnt id l.
Proof. intros; unfold cnt. cbn [count_occ]. destruct (cb_dec x id); lia. Qed.
Lemma cnt_one : forall id x, cnt id [x] = if cb_dec x id then 1 else 0.
Proof. intros. rewrite cnt_cons, cnt_nil. lia. Qed.
Lemma cnt_in : forall id l, 1 <= cnt id l -> In id l.
Proof. intros id l H. unfold cnt in H. apply (count_occ_In cb_dec). lia. Qed.
Lemma cnt_nodup : forall l, (forall id, cnt id l <= 1) -> NoDup l.
Proof. intros l H. apply (NoDup_count_occ cb_dec). intro x. specialize (H x). unfold cnt in H. lia. Qed.

Lemma sumz_cons : forall x l, sumz (x :: l) = x + sumz l.
Proof. reflexivity. Qed.
Lemma sumz_app : forall a b, sumz (a ++ b) = sumz a + sumz b.
Proof. induction a as [|x a IH]; intro b; cbn [app]; rewrite ?sumz_cons; [reflexivity | rewrite IH; lia]. Qed.
Lemma sumz_nonneg : forall l, (forall x, In x l -> 0 <= x) -> 0 <= sumz l.
Proof. induction l as [|x l IH]; intros H; rewrite ?sumz_cons; [cbn; lia|]. assert (0 <= x) by (apply H; left; reflexivity). assert (0 <= sumz l) by (apply IH; intros; apply H; right; assumption). lia. Qed.

(* ---- the initial state ---- *)
Lemma tsum_init_zero : forall f progs, (forall p, f (mk_thread p) = 0) -> tsum f (map mk_thread progs) = 0.
Proof. intros f progs H. apply tsum_zero. intros th Hin. apply in_map_iff in Hin. destruct Hin as [p [<- _]]. apply H. Qed.
Lemma tsum_init_set : forall progs, tsum m_set (map mk_thread progs) = Z.of_nat (length (filter is_set (all_ops progs))).
Proof.
  unfold all_ops. induction progs as [|p r IH]; cbn [map tsum concat]; [reflexivity|].
  rewrite IH, filter_app, app_length. change (m_set (mk_thread p)) with (Z.of_nat (length (filter is_set p))). lia.
Qed.
Lemma tsum_init_down : forall progs, tsum m_down (map mk_thread progs) = sumz (map down_amount (all_ops progs)).
Proof.
  unfold all_ops. induction progs as [|p r IH]; cbn [map tsum concat]; [reflexivity|].
  rewrite IH, map_app, sumz_app. change (m_down (mk_thread p)) with (sumz (map down_amount p)). lia.
Qed.

Lemma inv_init : forall latch progs, wf latch progs -> Inv latch progs (init latch progs).
Proof.
  intros latch progs Hwf. constructor; cbn [init threads fready clock vset hd early fcnt count].
  - rewrite map_map. cbn. apply map_id.
  - apply Forall_forall. intros th Hin. apply in_map_iff in Hin. destruct Hin as [p [<- _]]. split; cbn; auto.
  - rewrite tsum_init_zero by reflexivity. cbn. lia.
  - intros _. apply tsum_init_zero. reflexivity.
  - split; discriminate.
  - reflexivity.
  - rewrite tsum_init_zero by reflexivity. lia.
  - intros _. rewrite tsum_init_zero by reflexivity. lia.
  - intro id. unfold cbcount. cbn [init ran hlist hd threads]. rewrite tsum_init_zero by reflexivity. rewrite cnt_nil.
    split; [lia|]. split; [lia|]. intros th Hth Hlt. rewrite nth_error_map in Hth.
    destruct (nth_error progs (fst id)); [|discriminate]. injection Hth as <-. cbn in Hlt. lia.
  - intros ->. rewrite tsum_init_set. cbn. destruct Hwf as [[_ [H _]]|[H _]]; lia.
  - intros Hl. rewrite tsum_init_down. destruct Hwf as [[H _]|[_ [_ [_ H]]]]; [lia|]. unfold sumz. split; [exact H|]. split; [discriminate|lia].
Qed.

(* ---- wake_all ---- *)
Lemma wake_thread_id : forall th, parked th = false -> wake_thread th = th.
Proof. intros th H. unfold wake_thread, parked in *. destruct (tpc th); try reflexivity; discriminate. Qed.
Lemma nth_error_wake : forall l t th, nth_error l t = Some th -> parked th = false -> nth_error (map wake_thread l) t = Some th.
Proof. intros l t th H Hp. rewrite nth_error_map, H. cbn. rewrite wake_thread_id; auto. Qed.
Lemma wake_prog : forall th, prog (wake_thread th) = prog th.
Proof. intro th. unfold wake_thread. destruct (tpc th); reflexivity. Qed.
Lemma wake_opi : forall th, opi (wake_thread th) = opi th.
Proof. intro th. unfold wake_thread. destruct (tpc th); reflexivity. Qed.

Lemma step_progs : forall s t s', step s t = Some s' -> map prog (threads s') = map prog (threads s).
Proof.
  intros s t s' H. step_cases H; proj; try reflexivity.
  all: try (apply (map_set_nth _ _ prog _ _ _ _ Hth); reflexivity).
  rewrite (map_set_nth _ _ prog _ _ _ th); [| apply nth_error_wake; [assumption | unfold parked; rewrite Hpc; reflexivity] | reflexivity].
  rewrite map_map. apply map_ext. apply wake_prog.
Qed.

Lemma Loc_mono : forall fr clk fr' clk' th, (fr = true -> fr' = true) -> clk <= clk' -> Loc fr clk th -> Loc fr' clk' th.
Proof. intros fr clk fr' clk' th Hf Hc [Hr Hp]. split; [exact Hr|]. unfold pc_loc in *. destruct (tpc th); intuition lia. Qed.
Lemma Loc_wake : forall fr clk th, Loc fr clk th -> Loc fr clk (wake_thread th).
Proof.
  intros fr clk th [Hr Hp]. unfold wake_thread. unfold pc_loc in Hp. destruct (tpc th) eqn:E; try (split; [exact Hr | unfold pc_loc; rewrite E; exact Hp]).
  all: split; [exact Hr | unfold pc_loc; proj; exact Hp].
Qed.

Lemma tsum_b2z_nonneg : forall g l, 0 <= tsum (fun th => b2z (g th)) l.
Proof. intros. apply tsum_nonneg_in. intros. apply b2z_range. Qed.

Lemma fready_vset : forall latch progs s, Inv latch progs s -> fready s = true -> vset s = true.
Proof.
  intros latch progs s HI H. pose proof (i_futex _ _ _ HI) as Hf. pose proof (tsum_b2z_nonneg in_futex (threads s)) as Hn.
  unfold m_futex in Hf. rewrite H in Hf. destruct (vset s); [reflexivity|]. cbn in Hf. lia.
Qed.

Lemma step_loc : forall latch progs s t s', Inv latch progs s -> step s t = Some s' ->
  Forall (Loc (fready s') (clock s')) (threads s').
Proof.
  intros latch progs s t s' HI H. pose proof (i_loc _ _ _ HI) as HL. pose proof (fready_vset _ _ _ HI) as Hfv.
  step_cases H; proj.
  35: { eapply Forall_impl; [|exact HL]. intros a. apply Loc_mono; [auto|lia]. }
  all: pose proof (proj1 (Forall_forall _ _) HL _ (nth_error_In _ _ Hth)) as Hl.
  all: destruct Hl as [Hr Hp]; unfold pc_loc in Hp; rewrite Hpc in Hp.
  all: apply Forall_set_nth;
    [ try (apply Forall_forall; intros a Ha; apply in_map_iff in Ha; destruct Ha as [a0 [<- Ha]]; apply Loc_wake; revert a0 Ha; apply Forall_forall);
      (eapply Forall_impl; [|exact HL]; intros a; apply Loc_mono; [auto|lia])
    | split; proj;
      [ first [exact Hr | apply Forall_app; split; [exact Hr | constructor; [cbn [res_ok] | constructor]]]
      | unfold pc_loc; proj; unfold not_fin, bound in *; proj ] ].
  all: try exact I.
  all: try solve [intuition (try lia; try congruence; auto)].
  - destruct (nth_error (prog th) (opi th)) as [[]|]; exact I.
  - match goal with Ht : timed_out _ = true |- _ => apply timed_out_spec in Ht; rewrite remaining_spec in Ht end.
    unfold bound in Hp. rewrite wait_for_clamp_spec in Hp. lia.
Qed.

(* ---- static facts from wf: programs never change ---- *)
Lemma prog_in_all : forall progs l th o, map prog l = progs -> In th l -> In o (prog th) -> In o (all_ops progs).
Proof. intros progs l th o <- Hin Ho. unfold all_ops. apply in_concat. exists (prog th). split; [apply in_map; exact Hin | exact Ho]. Qed.
Lemma wf_plain_no_down : forall latch progs o, wf latch progs -> latch = 0 -> In o (all_ops progs) -> is_down o = false.
Proof.
  intros latch progs o [[_ [_ H]]|[H _]] Hl Hin; [|lia]. destruct (is_down o) eqn:E; [|reflexivity].
  assert (Hf : In o (filter is_down (all_ops progs))) by (apply filter_In; auto). rewrite H in Hf. destruct Hf.
Qed.
Lemma wf_latch_no_set : forall latch progs o, wf latch progs -> 0 < latch -> In o (all_ops progs) -> is_set o = false.
Proof.
  intros latch progs o [[H _]|[_ [H _]]] Hl Hin; [lia|]. destruct (is_set o) eqn:E; [|reflexivity].
  assert (Hf : In o (filter is_set (all_ops progs))) by (apply filter_In; auto). rewrite H in Hf. destruct Hf.
Qed.
Lemma wf_latch_pos : forall latch progs o, wf latch progs -> 0 < latch -> In o (all_ops progs) -> is_down o = true -> 0 < down_amount o.
Proof. intros latch progs o [[H _]|[_ [_ [H _]]]] Hl Hin; [lia|]. rewrite Forall_forall in H. apply H. exact Hin. Qed.
Lemma wf_latch_nonneg : forall latch progs o, wf latch progs -> 0 < latch -> In o (all_ops progs) -> 0 <= down_amount o.
Proof.
  intros latch progs o Hwf Hl Hin. destruct (is_down o) eqn:E; [pose proof (wf_latch_pos _ _ _ Hwf Hl Hin E); lia|].
  destruct o; cbn in *; try lia; discriminate.
Qed.

(* ---- unstarted operations ---- *)
Lemma unstarted_incl : forall th o, In o (unstarted th) -> In o (prog th).
Proof. intros th o. unfold unstarted. destruct (setting th); apply In_skipn. Qed.
Lemma m_set_nonneg : forall th, 0 <= m_set th.
Proof. intro; unfold m_set; lia. Qed.
Lemma m_down_nonneg : forall th, (forall o, In o (prog th) -> 0 <= down_amount o) -> 0 <= m_down th.
Proof.
  intros th H. unfold m_down. apply sumz_nonneg. intros x Hx. apply in_map_iff in Hx. destruct Hx as [o [<- Ho]].
  apply H. apply unstarted_incl. exact Ho.
Qed.
Lemma ustep_measures : forall th th' pre, unstarted th = pre ++ unstarted th' ->
  m_set th = Z.of_nat (length (filter is_set pre)) + m_set th' /\ m_down th = sumz (map down_amount pre) + m_down th'.
Proof. intros th th' pre H. unfold m_set, m_down. rewrite H, filter_app, app_length, map_app, sumz_app. lia. Qed.

Lemma latch_down_nonneg : forall latch progs s, wf latch progs -> 0 < latch -> Inv latch progs s ->
  forall th, In th (threads s) -> forall o, In o (prog th) -> 0 <= down_amount o.
Proof.
  intros latch progs s Hwf Hl HI th Hin o Ho. eapply wf_latch_nonneg; eauto. eapply prog_in_all; eauto. apply (i_progs _ _ _ HI).
Qed.

Lemma begin_oset : forall latch progs s t th, wf latch progs -> Inv latch progs s ->
  nth_error (threads s) t = Some th -> tpc th = Idle -> nth_error (prog th) (opi th) = Some OSet ->
  vset s = false /\ latch = 0.
Proof.
  intros latch progs s t th Hwf HI Hth Hpc Hop.
  assert (Hin : In th (threads s)) by (eapply nth_error_In; eauto).
  assert (Hall : In OSet (all_ops progs)) by (eapply prog_in_all; [apply (i_progs _ _ _ HI) | exact Hin | eapply nth_error_In; eauto]).
  destruct (Z.eq_dec latch 0) as [Hl|Hl].
  - split; [|exact Hl]. pose proof (i_plain _ _ _ HI Hl) as Hp.
    assert (Hge : m_set th <= tsum m_set (threads s)) by (apply tsum_ge_in; [intros; apply m_set_nonneg | exact Hin]).
    assert (1 <= m_set th).
    { unfold m_set, unstarted, setting. rewrite Hpc. rewrite (skipn_cur _ (opi th)), Hop. cbn [filter is_set length]. lia. }
    destruct (vset s); [cbn in Hp; lia | reflexivity].
  - exfalso. assert (0 < latch) by (destruct Hwf as [[? _]|[? _]]; lia).
    pose proof (wf_latch_no_set _ _ _ Hwf H Hall). discriminate.
Qed.

Lemma begin_odown : forall latch progs s t th d, wf latch progs -> Inv latch progs s ->
  nth_error (threads s) t = Some th -> tpc th = Idle -> nth_error (prog th) (opi th) = Some (ODown d) ->
  vset s = false /\ 0 < latch /\ 0 < d.
Proof.
  intros latch progs s t th d Hwf HI Hth Hpc Hop.
  assert (Hin : In th (threads s)) by (eapply nth_error_In; eauto).
  assert (Hall : In (ODown d) (all_ops progs)) by (eapply prog_in_all; [apply (i_progs _ _ _ HI) | exact Hin | eapply nth_error_In; eauto]).
  destruct (Z.eq_dec latch 0) as [Hl|Hl].
  - pose proof (wf_plain_no_down _ _ _ Hwf Hl Hall). discriminate.
  - assert (Hlp : 0 < latch) by (destruct Hwf as [[? _]|[? _]]; lia).
    pose proof (wf_latch_pos _ _ _ Hwf Hlp Hall eq_refl) as Hd. cbn in Hd.
    split; [|split; assumption].
    destruct (i_latch _ _ _ HI Hlp) as [Hsum Hiff].
    pose proof (latch_down_nonneg _ _ _ Hwf Hlp HI) as Hnn.
    assert (Hge : m_down th <= tsum m_down (threads s)) by (apply tsum_ge_in; [intros th0 Hth0; apply m_down_nonneg; apply Hnn; exact Hth0 | exact Hin]).
    assert (Hm : d <= m_down th).
    { unfold m_down, unstarted, setting. rewrite Hpc. rewrite (skipn_cur _ (opi th)), Hop. cbn [map down_amount]. rewrite sumz_cons.
      assert (0 <= sumz (map down_amount (skipn (S (opi th)) (prog th)))); [|lia].
      apply sumz_nonneg. intros x Hx. apply in_map_iff in Hx. destruct Hx as [o [<- Ho]]. apply (Hnn th Hin). eapply In_skipn; eauto. }
    destruct (vset s); [|reflexivity]. assert (count s = 0) by (apply Hiff; reflexivity). lia.
Qed.

(* ---- wake_all and the boolean measures ---- *)
Ltac wake_same := let th := fresh "th" in let E := fresh "E" in intro th; unfold wake_thread; destruct (tpc th) eqn:E; proj; rewrite ?E; reflexivity.
Lemma wake_m_futex : forall th, m_futex (wake_thread th) = m_futex th.
Proof. unfold m_futex, in_futex. wake_same. Qed.
Lemma wake_m_setting : forall th, m_setting (wake_thread th) = m_setting th.
Proof. unfold m_setting, setting. wake_same. Qed.
Lemma wake_m_pend : forall th, m_pend (wake_thread th) = m_pend th.
Proof. unfold m_pend, wake_pending. wake_same. Qed.
Lemma wake_m_post : forall th, m_post (wake_thread th) = m_post th.
Proof. unfold m_post, post. wake_same. Qed.
Lemma wake_m_park : forall l, tsum m_park (map wake_thread l) = 0.
Proof.
  intro l. apply tsum_zero. intros th Hin. apply in_map_iff in Hin. destruct Hin as [a [<- _]].
  unfold m_park, parked, wake_thread. destruct (tpc a) eqn:E; proj; rewrite ?E; reflexivity.
Qed.
Lemma park_le_post : forall l, tsum m_park l <= tsum m_post l.
Proof. intro l. apply tsum_le. intros th _. unfold m_park, m_post, parked, post. destruct (tpc th); cbn; lia. Qed.
Lemma word_eqb_fst : forall a n v, word_eqb (a, n) v = true -> a = fst v.
Proof. intros a n v H. unfold word_eqb in H. cbn [fst snd] in H. apply andb_prop in H. destruct H as [H _]. apply eqb_prop in H. exact H. Qed.

Ltac unfold_measures :=
  unfold m_futex, m_setting, m_pend, m_park, m_post, in_futex, setting, wake_pending, parked, post.

Ltac abstract_sums s :=
  set (S1 := tsum m_futex (threads s)) in *; set (S2 := tsum m_setting (threads s)) in *;
  set (S3 := tsum m_pend (threads s)) in *; set (S4 := tsum m_park (threads s)) in *;
  set (S5 := tsum m_post (threads s)) in *; clearbody S1 S2 S3 S4 S5.

Lemma step_arith : forall latch progs s t s', wf latch progs -> Inv latch progs s -> step s t = Some s' ->
  tsum m_futex (threads s') + b2z (fready s') <= b2z (vset s') /\
  (vset s' = false -> tsum m_setting (threads s') = 0) /\
  (0 < tsum m_park (threads s') -> fready s' = false \/ 0 < tsum m_pend (threads s')) /\
  (fready s' = false -> tsum m_post (threads s') <= fcnt s').
Proof.
  intros latch progs s t s' Hwf HI H.
  pose proof (i_futex _ _ _ HI) as Hfut. pose proof (i_setting _ _ _ HI) as Hset.
  pose proof (i_park _ _ _ HI) as Hpark. pose proof (i_post _ _ _ HI) as Hpost.
  pose proof (i_loc _ _ _ HI) as HL.
  pose proof (tsum_b2z_nonneg in_futex (threads s)) as N1. pose proof (tsum_b2z_nonneg setting (threads s)) as N2.
  pose proof (tsum_b2z_nonneg wake_pending (threads s)) as N3. pose proof (tsum_b2z_nonneg parked (threads s)) as N4.
  pose proof (tsum_b2z_nonneg post (threads s)) as N5. pose proof (park_le_post (threads s)) as N6.
  fold m_futex in N1. fold m_setting in N2. fold m_pend in N3. fold m_park in N4. fold m_post in N5.
  step_cases H; proj.
  35: { repeat split; assumption. }
  all: pose proof (proj1 (Forall_forall _ _) HL _ (nth_error_In _ _ Hth)) as [_ Hp]; unfold pc_loc in Hp; rewrite Hpc in Hp.
  all: assert (G1 : m_futex th <= tsum m_futex (threads s)) by (apply tsum_ge_in; [intros; apply b2z_range | eapply nth_error_In; exact Hth]).
  all: assert (G2 : m_setting th <= tsum m_setting (threads s)) by (apply tsum_ge_in; [intros; apply b2z_range | eapply nth_error_In; exact Hth]).
  all: assert (G3 : m_pend th <= tsum m_pend (threads s)) by (apply tsum_ge_in; [intros; apply b2z_range | eapply nth_error_In; exact Hth]).
  all: assert (G4 : m_park th <= tsum m_park (threads s)) by (apply tsum_ge_in; [intros; apply b2z_range | eapply nth_error_In; exact Hth]).
  all: assert (G5 : m_post th <= tsum m_post (threads s)) by (apply tsum_ge_in; [intros; apply b2z_range | eapply nth_error_In; exact Hth]).
  all: try (pose proof (begin_oset _ _ _ _ _ Hwf HI Hth Hpc Hop) as Boset); try (pose proof (begin_odown _ _ _ _ _ _ Hwf HI Hth Hpc Hop) as Bodown).
  all: repeat match goal with Hw : word_eqb _ _ = true |- _ => apply word_eqb_fst in Hw end.
  all: repeat match goal with Hw : wake_needed _ = _ |- _ => unfold wake_needed in Hw end.
  14: { (* SetWake: wake_all *)
    assert (Hth' : nth_error (map wake_thread (threads s)) t = Some th)
      by (apply nth_error_wake; [exact Hth | unfold parked; rewrite Hpc; reflexivity]).
    rewrite !(tsum_set_nth _ _ _ _ _ Hth'). rewrite wake_m_park.
    rewrite (tsum_map _ _ wake_m_futex), (tsum_map _ _ wake_m_setting), (tsum_map _ _ wake_m_pend), (tsum_map _ _ wake_m_post).
    abstract_sums s. revert G1 G2 G3 G4 G5. unfold_measures. proj. rewrite Hpc. cbn [b2z]. lia. }
  all: rewrite !(tsum_set_nth _ _ _ _ _ Hth).
  all: abstract_sums s; revert G1 G2 G3 G4 G5; unfold_measures; proj; rewrite Hpc; cbn [b2z].
  all: try lia.
  all: destruct (vset s) eqn:Ev; destruct (fready s) eqn:Ef; cbn [b2z] in *; try lia.
Qed.

Lemma setting_vset : forall latch progs s t th, Inv latch progs s -> nth_error (threads s) t = Some th ->
  setting th = true -> vset s = true.
Proof.
  intros latch progs s t th HI Hth Hs. destruct (vset s) eqn:Ev; [reflexivity|].
  pose proof (i_setting _ _ _ HI Ev) as H0.
  assert (G : m_setting th <= tsum m_setting (threads s)) by (apply tsum_ge_in; [intros; apply b2z_range | eapply nth_error_In; exact Hth]).
  unfold m_setting at 1 in G. rewrite Hs in G. cbn in G. lia.
Qed.

Lemma step_sealed_early : forall latch progs s t s', Inv latch progs s -> step s t = Some s' ->
  (vset s' = true <-> hd s' = HSealed) /\ early s' = false.
Proof.
  intros latch progs s t s' HI H.
  pose proof (i_sealed _ _ _ HI) as Hseal. pose proof (i_early _ _ _ HI) as Hearly.
  pose proof (fun th => setting_vset _ _ _ t th HI) as Hsv.
  step_cases H; proj.
  all: repeat match goal with E : hd _ = _ |- _ => rewrite E end.
  all: try (split; [exact Hseal | exact Hearly]).
  all: try (split; [split; reflexivity | exact Hearly]).
  all: try (assert (Hv : vset s = true) by (apply Hseal; reflexivity); split; [exact Hseal | rewrite Hearly, Hv; reflexivity]).
  - assert (Hv : vset s = true) by (apply (Hsv th eq_refl); unfold setting; rewrite Hpc; reflexivity).
    split; [exact Hseal | rewrite Hearly, Hv; reflexivity].
  - split; [|exact Hearly]. split; [intro Hv; apply Hseal in Hv; discriminate Hv | discriminate].
Qed.

(* ---- plain mode: at most one set_value begins; latch mode: count bookkeeping ---- *)
Lemma wake_unstarted : forall th, unstarted (wake_thread th) = unstarted th.
Proof. intro th. unfold wake_thread, unstarted, setting. destruct (tpc th) eqn:E; proj; rewrite ?E; reflexivity. Qed.
Lemma wake_m_set : forall th, m_set (wake_thread th) = m_set th.
Proof. intro th. unfold m_set. rewrite wake_unstarted. reflexivity. Qed.
Lemma wake_m_down : forall th, m_down (wake_thread th) = m_down th.
Proof. intro th. unfold m_down. rewrite wake_unstarted. reflexivity. Qed.

Lemma sumz_nil : sumz [] = 0.
Proof. reflexivity. Qed.
Definition cur_pre (th : thread) : list op := match nth_error (prog th) (opi th) with Some o => [o] | None => [] end.
Lemma cur_pre_nonneg : forall th, (forall o, In o (prog th) -> 0 <= down_amount o) -> 0 <= sumz (map down_amount (cur_pre th)).
Proof.
  intros th H. unfold cur_pre. destruct (nth_error (prog th) (opi th)) as [o|] eqn:E; cbn; [|lia].
  apply nth_error_In in E. specialize (H o E). lia.
Qed.

Ltac find_ustep th Hpc :=
  match goal with |- context [set_nth _ ?th' _] =>
    first [ assert (Hu : unstarted th = [] ++ unstarted th') by (unfold unstarted, setting; proj; rewrite Hpc; reflexivity)
          | assert (Hu : unstarted th = cur_pre th ++ unstarted th')
              by (unfold unstarted, setting, cur_pre; proj; rewrite Hpc; rewrite (skipn_cur _ (opi th));
                  destruct (nth_error (prog th) (opi th)); reflexivity) ]
  end.

Lemma step_modes : forall latch progs s t s', wf latch progs -> Inv latch progs s -> step s t = Some s' ->
  (latch = 0 -> tsum m_set (threads s') + b2z (vset s') <= 1) /\
  (0 < latch -> tsum m_down (threads s') <= count s' /\ (vset s' = true <-> count s' = 0)).
Proof.
  intros latch progs s t s' Hwf HI H.
  pose proof (i_plain _ _ _ HI) as Hplain. pose proof (i_latch _ _ _ HI) as Hlatch.
  pose proof (fun Hl => latch_down_nonneg _ _ _ Hwf Hl HI) as Hnn.
  step_cases H; proj.
  35: { split; assumption. }
  all: try (pose proof (begin_oset _ _ _ _ _ Hwf HI Hth Hpc Hop) as Boset); try (pose proof (begin_odown _ _ _ _ _ _ Hwf HI Hth Hpc Hop) as Bodown).
  all: find_ustep th Hpc.
  all: destruct (ustep_measures _ _ _ Hu) as [Us Ud].
  all: assert (Hpre : 0 < latch -> 0 <= sumz (map down_amount (cur_pre th)))
         by (intro Hl0; apply cur_pre_nonneg; apply (Hnn Hl0); eapply nth_error_In; exact Hth).
  all: unfold cur_pre in *; rewrite ?Hop in *; cbn [app filter is_set is_down down_amount map length] in Us, Ud, Hpre; rewrite ?sumz_cons, ?sumz_nil in *.
  14: { assert (Hth' : nth_error (map wake_thread (threads s)) t = Some th)
      by (apply nth_error_wake; [exact Hth | unfold parked; rewrite Hpc; reflexivity]).
    rewrite !(tsum_set_nth _ _ _ _ _ Hth'). rewrite (tsum_map _ _ wake_m_set), (tsum_map _ _ wake_m_down).
    split; intro Hl; [specialize (Hplain Hl)|specialize (Hlatch Hl)]. all: lia. }
  all: rewrite !(tsum_set_nth _ _ _ _ _ Hth).
  all: repeat match goal with Hw : latch_fires _ = _ |- _ => unfold latch_fires in Hw end.
  all: (split; intro Hl; [specialize (Hplain Hl)|specialize (Hlatch Hl); specialize (Hpre Hl)]).
  all: try (destruct (vset s) eqn:Ev; cbn [b2z] in *; lia).
Qed.

(* ---- callbacks: every completed on_finish is in exactly one of ran / head list / a setter's detached list ---- *)
Lemma m_cb_nonneg : forall id l, 0 <= tsum (m_cb id) l.
Proof. intros. apply tsum_nonneg_in. intros. apply cnt_nonneg. Qed.
Lemma cbcount_nonneg : forall id s, 0 <= cbcount id s.
Proof. intros. unfold cbcount. pose proof (cnt_nonneg id (ran s)). pose proof (cnt_nonneg id (hlist s)). pose proof (m_cb_nonneg id (threads s)). lia. Qed.

Lemma cb_keep : forall s s' t th th',
  nth_error (threads s) t = Some th -> threads s' = set_nth t th' (threads s) -> prog th' = prog th ->
  (opi th' = opi th \/ (opi th' = S (opi th) /\ nth_error (prog th) (opi th) <> Some OFin)) ->
  (forall id, cnt id (ran s') + cnt id (hlist s') + m_cb id th' = cnt id (ran s) + cnt id (hlist s) + m_cb id th) ->
  cb_inv s -> cb_inv s'.
Proof.
  intros s s' t th th' Hth Hthr Hprog Hopi Hcnt Hcb id. destruct (Hcb id) as [A [B C]].
  assert (E : cbcount id s' = cbcount id s).
  { unfold cbcount. rewrite Hthr, (tsum_set_nth _ _ _ _ _ Hth). specialize (Hcnt id). lia. }
  rewrite E. split; [exact A|]. split.
  - intro H1. destruct (B H1) as [th0 [Hth0 Hlt]]. rewrite Hthr. destruct (Nat.eq_dec (fst id) t) as [e|n].
    + rewrite e in *. rewrite Hth in Hth0. injection Hth0 as <-. exists th'. split; [eapply nth_error_set_nth_eq; eauto | lia].
    + exists th0. split; [rewrite nth_error_set_nth_neq; assumption | exact Hlt].
  - intros th0 Hth0 Hlt Hfin. rewrite Hthr in Hth0. destruct (Nat.eq_dec (fst id) t) as [e|n].
    + rewrite e in *. rewrite (nth_error_set_nth_eq _ _ _ _ _ Hth) in Hth0. injection Hth0 as <-. rewrite Hprog in Hfin.
      apply (C th Hth); [|exact Hfin]. destruct Hopi as [Ho|[Ho Hnf]]; [lia|].
      destruct (Nat.eq_dec (snd id) (opi th)) as [e2|n2]; [rewrite e2 in Hfin; contradiction | lia].
    + rewrite nth_error_set_nth_neq in Hth0 by assumption. apply (C th0); assumption.
Qed.

Lemma cb_add : forall s s' t th th',
  nth_error (threads s) t = Some th -> threads s' = set_nth t th' (threads s) -> prog th' = prog th ->
  opi th' = S (opi th) ->
  (forall id, cnt id (ran s') + cnt id (hlist s') + m_cb id th' =
              cnt id (ran s) + cnt id (hlist s) + m_cb id th + (if cb_dec (t, opi th) id then 1 else 0)) ->
  cb_inv s -> cb_inv s'.
Proof.
  intros s s' t th th' Hth Hthr Hprog Hopi Hcnt Hcb id. destruct (Hcb id) as [A [B C]].
  assert (E : cbcount id s' = cbcount id s + (if cb_dec (t, opi th) id then 1 else 0)).
  { unfold cbcount. rewrite Hthr, (tsum_set_nth _ _ _ _ _ Hth). specialize (Hcnt id). lia. }
  rewrite E. pose proof (cbcount_nonneg id s) as Hnn. destruct (cb_dec (t, opi th) id) as [e|n].
  - subst id. cbn [fst snd] in *.
    assert (Z0 : cbcount (t, opi th) s = 0).
    { destruct (Z.eq_dec (cbcount (t, opi th) s) 0) as [z|nz]; [exact z|]. exfalso.
      destruct B as [th0 [Hth0 Hlt]]; [lia|]. rewrite Hth in Hth0. injection Hth0 as <-. lia. }
    rewrite Z0. split; [lia|]. split; [|intros; lia].
    intros _. exists th'. rewrite Hthr. split; [eapply nth_error_set_nth_eq; eauto | lia].
  - replace (cbcount id s + 0) with (cbcount id s) by lia. split; [exact A|]. split.
    + intro H1. destruct (B H1) as [th0 [Hth0 Hlt]]. rewrite Hthr. destruct (Nat.eq_dec (fst id) t) as [e|ne].
      * rewrite e in *. rewrite Hth in Hth0. injection Hth0 as <-. exists th'. split; [eapply nth_error_set_nth_eq; eauto | lia].
      * exists th0. split; [rewrite nth_error_set_nth_neq; assumption | exact Hlt].
    + intros th0 Hth0 Hlt Hfin. rewrite Hthr in Hth0. destruct (Nat.eq_dec (fst id) t) as [e|ne].
      * rewrite e in *. rewrite (nth_error_set_nth_eq _ _ _ _ _ Hth) in Hth0. injection Hth0 as <-. rewrite Hprog in Hfin.
        apply (C th Hth); [|exact Hfin].
        destruct (Nat.eq_dec (snd id) (opi th)) as [e2|n2]; [|lia].
        exfalso. apply n. destruct id as [a b]. cbn [fst snd] in *. congruence.
      * rewrite nth_error_set_nth_neq in Hth0 by assumption. apply (C th0); assumption.
Qed.

Lemma wake_m_cb : forall id th, m_cb id (wake_thread th) = m_cb id th.
Proof. intros id th. unfold m_cb, slist, wake_thread. destruct (tpc th) eqn:E; proj; rewrite ?E; reflexivity. Qed.

Lemma cb_wake : forall s, cb_inv s -> cb_inv (wake_all s).
Proof.
  intros s Hcb id. destruct (Hcb id) as [A [B C]].
  assert (E : cbcount id (wake_all s) = cbcount id s).
  { unfold cbcount, hlist. proj. rewrite (tsum_map _ _ (wake_m_cb id)). reflexivity. }
  rewrite E. split; [exact A|]. split.
  - intro H1. destruct (B H1) as [th0 [Hth0 Hlt]]. exists (wake_thread th0). proj. rewrite nth_error_map, Hth0, wake_opi. split; [reflexivity|exact Hlt].
  - intros th0 Hth0 Hlt Hfin. proj_in Hth0. rewrite nth_error_map in Hth0.
    destruct (nth_error (threads s) (fst id)) as [a|] eqn:Ea; [|discriminate]. cbn in Hth0. injection Hth0 as <-.
    rewrite wake_opi in Hlt. rewrite wake_prog in Hfin. apply (C a); auto.
Qed.

Ltac cb_counts Hpc :=
  let id := fresh "id" in
  intro id; proj; unfold m_cb, slist, hlist; proj; rewrite ?Hpc;
  repeat match goal with E : hd _ = _ |- _ => rewrite E end;
  rewrite ?cnt_app, ?cnt_cons, ?cnt_nil; lia.

Lemma step_cb : forall latch progs s t s', Inv latch progs s -> step s t = Some s' -> cb_inv s'.
Proof.
  intros latch progs s t s' HI H. pose proof (i_cb _ _ _ HI) as Hcb. pose proof (i_loc _ _ _ HI) as HL.
  step_cases H.
  35: { exact Hcb. }
  all: pose proof (proj1 (Forall_forall _ _) HL _ (nth_error_In _ _ Hth)) as [_ Hp]; unfold pc_loc in Hp; rewrite Hpc in Hp; unfold not_fin in Hp.
  14: { (* SetWake *)
    assert (Hth' : nth_error (threads (wake_all s)) t = Some th)
      by (proj; apply nth_error_wake; [exact Hth | unfold parked; rewrite Hpc; reflexivity]).
    eapply (cb_keep (wake_all s) _ t th _ Hth'); [reflexivity | reflexivity | left; reflexivity | cb_counts Hpc | apply cb_wake; exact Hcb]. }
  all: first
    [ eapply (cb_keep s _ t th _ Hth);
      [ reflexivity | reflexivity
      | first [left; reflexivity | right; split; [reflexivity | first [rewrite Hop; discriminate | tauto]]]
      | cb_counts Hpc | exact Hcb ]
    | eapply (cb_add s _ t th _ Hth); [reflexivity | reflexivity | reflexivity | cb_counts Hpc | exact Hcb ] ].
Qed.

(* ======================================================================================== *)
(* The invariant holds in every reachable state                                             *)
(* ======================================================================================== *)
Lemma inv_step : forall latch progs, wf latch progs ->
  forall s t s', Inv latch progs s -> step s t = Some s' -> Inv latch progs s'.
Proof.
  intros latch progs Hwf s t s' HI H.
  destruct (step_arith _ _ _ _ _ Hwf HI H) as [A1 [A2 [A3 A4]]].
  destruct (step_sealed_early _ _ _ _ _ HI H) as [B1 B2].
  destruct (step_modes _ _ _ _ _ Hwf HI H) as [C1 C2].
  constructor; try assumption.
  - rewrite (step_progs _ _ _ H). apply (i_progs _ _ _ HI).
  - eapply step_loc; eauto.
  - eapply step_cb; eauto.
Qed.

Lemma inv_reach : forall latch progs s, wf latch progs -> Reach latch progs s -> Inv latch progs s.
Proof.
  intros latch progs s Hwf HR. unfold Reach in HR. revert s HR.
  apply inv_reachable; [apply inv_init; exact Hwf | apply inv_step; exact Hwf].
Qed.

(* ======================================================================================== *)
(* The theorems of Properties_C08.v                                                         *)
(* ======================================================================================== *)
Lemma fu_ran_nodup : forall latch progs s, wf latch progs -> Reach latch progs s -> NoDup (ran s).
Proof.
  intros latch progs s Hwf HR. pose proof (i_cb _ _ _ (inv_reach _ _ _ Hwf HR)) as Hcb.
  apply cnt_nodup. intro id. destruct (Hcb id) as [A _]. unfold cbcount in A.
  pose proof (cnt_nonneg id (hlist s)). pose proof (m_cb_nonneg id (threads s)). lia.
Qed.

Lemma fu_not_early : forall latch progs s, wf latch progs -> Reach latch progs s -> early s = false.
Proof. intros latch progs s Hwf HR. apply (i_early _ _ _ (inv_reach _ _ _ Hwf HR)). Qed.

Lemma fu_finished_callbacks_ran : forall latch progs s, wf latch progs -> Reach latch progs s ->
  hd s = HSealed -> (forall th, In th (threads s) -> setting th = false) ->
  forall t th i, nth_error (threads s) t = Some th -> nth_error (prog th) i = Some OFin -> (i < opi th)%nat ->
  In (t, i) (ran s).
Proof.
  intros latch progs s Hwf HR Hhd Hns t th i Hth Hfin Hlt.
  pose proof (i_cb _ _ _ (inv_reach _ _ _ Hwf HR)) as Hcb. destruct (Hcb (t, i)) as [_ [_ C]].
  specialize (C th Hth Hlt Hfin). unfold cbcount, hlist in C. rewrite Hhd, cnt_nil in C.
  rewrite tsum_zero in C.
  - apply cnt_in. lia.
  - intros th0 Hin. specialize (Hns th0 Hin). unfold m_cb, slist. unfold setting in Hns. destruct (tpc th0); try discriminate; apply cnt_nil.
Qed.

Lemma results_ok : forall latch progs s th r, wf latch progs -> Reach latch progs s ->
  In th (threads s) -> In r (results th) -> res_ok r.
Proof.
  intros latch progs s th r Hwf HR Hin Hr. pose proof (i_loc _ _ _ (inv_reach _ _ _ Hwf HR)) as HL.
  rewrite Forall_forall in HL. destruct (HL th Hin) as [Hres _]. rewrite Forall_forall in Hres. apply Hres. exact Hr.
Qed.

Lemma fu_get_sees_value : forall latch progs s th b, wf latch progs -> Reach latch progs s ->
  In th (threads s) -> In (RGet b) (results th) -> b = true.
Proof. intros latch progs s th b Hwf HR Hin Hr. apply (results_ok _ _ _ _ _ Hwf HR Hin Hr). Qed.

Lemma fu_wait_true_ready : forall latch progs s th tmo a b rdy, wf latch progs -> Reach latch progs s ->
  In th (threads s) -> In (RWait true tmo a b rdy) (results th) -> rdy = true.
Proof. intros latch progs s th tmo a b rdy Hwf HR Hin Hr. apply (results_ok _ _ _ _ _ Hwf HR Hin Hr). Qed.

Lemma fu_wait_false_elapsed : forall latch progs s th tmo a b rdy, wf latch progs -> Reach latch progs s ->
  In th (threads s) -> In (RWait false tmo a b rdy) (results th) -> tmo <= b - a.
Proof. intros latch progs s th tmo a b rdy Hwf HR Hin Hr. apply (results_ok _ _ _ _ _ Hwf HR Hin Hr). Qed.

Lemma step_fready_mono : forall s t s', step s t = Some s' -> fready s = true -> fready s' = true.
Proof. intros s t s' H Hf. step_cases H; proj; first [reflexivity | assumption | congruence]. Qed.

Lemma fu_ready_stable : forall latch progs s sch, wf latch progs -> Reach latch progs s ->
  fready s = true -> fready (run st step s sch) = true /\ hd (run st step s sch) = HSealed.
Proof.
  intros latch progs s sch Hwf HR Hf.
  assert (Hf' : fready (run st step s sch) = true).
  { revert Hf. apply (inv_run st step (fun x => fready x = true)). intros x t x' Hx Hs. eapply step_fready_mono; eauto. }
  split; [exact Hf'|].
  assert (HR' : Reach latch progs (run st step s sch)).
  { destruct HR as [sch0 <-]. exists (sch0 ++ sch). apply run_app. }
  pose proof (inv_reach _ _ _ Hwf HR') as HI. apply (i_sealed _ _ _ HI). eapply fready_vset; eauto.
Qed.

Lemma fu_no_lost_wakeup : forall latch progs s, wf latch progs -> Reach latch progs s ->
  fready s = true -> (forall th, In th (threads s) -> wake_pending th = false) ->
  forall th, In th (threads s) -> parked th = false.
Proof.
  intros latch progs s Hwf HR Hf Hnp th Hin. pose proof (i_park _ _ _ (inv_reach _ _ _ Hwf HR)) as Hp.
  assert (Z3 : tsum m_pend (threads s) = 0).
  { apply tsum_zero. intros th0 Hin0. unfold m_pend. rewrite (Hnp th0 Hin0). reflexivity. }
  assert (G : m_park th <= tsum m_park (threads s)) by (apply tsum_ge_in; [intros; apply b2z_range | exact Hin]).
  destruct (parked th) eqn:E; [|reflexivity]. unfold m_park in G at 1. rewrite E in G. cbn [b2z] in G.
  destruct Hp as [Hp|Hp]; [lia | congruence | lia].
Qed.

Lemma fu_latch_iff : forall latch progs s, wf latch progs -> 0 < latch -> Reach latch progs s ->
  (vset s = true <-> count s = 0).
Proof. intros latch progs s Hwf Hl HR. apply (i_latch _ _ _ (inv_reach _ _ _ Hwf HR) Hl). Qed.
