(* Executable interleaving model of babylon::FutureContext / Promise / Future / CountDownLatch
   (src/babylon/future.hpp).  One step = one atomic operation (or futex call, or clock read) of the
   C++ code plus the local computation up to the next one.  No proofs here.

   Shared state : _head (callback list | SEALED), the futex word split into its READY bit and the
   waiter count, the latch counter, a virtual clock (advanced by the pseudo-thread `length threads`).
   Ghost state  : vset (value constructed), ran (callbacks run, in order), registered, flags. *)
From Coq Require Import ZArith List Bool.
Require Import Verif.Gen.Gen_future.
Import ListNotations.
Local Open Scope Z_scope.

Definition cbid := (nat * nat)%type.          (* (thread, op index) of the on_finish call *)

Inductive op :=
| OSet                 (* promise.set_value(v) *)
| OGet                 (* future.get() *)
| OWait (timeout : Z)  (* future.wait_for(timeout ns) *)
| OFin                 (* future.on_finish(cb) *)
| OReady               (* future.ready() *)
| ODown (d : Z).       (* latch.count_down(d) *)

Inductive res :=
| RSet | RGet (saw_value : bool) | RWait (r : bool) (tmo start finish : Z) (ready_at_return : bool)
| RFin | RReady (r : bool) | RDown.

Inductive head := HList (l : list cbid) | HSealed.

Inductive pc :=
| Idle
| SetFutex (l : list cbid)                 (* head sealed, next: exchange futex word *)
| SetWake (l : list cbid)                  (* next: futex wake_all *)
| SetRun (l : list cbid)                   (* next: run detached callbacks *)
| GetAdd                                   (* wait_slow: fetch_add *)
| GetWait (v : bool * Z)                   (* futex_wait(v) about to be issued *)
| GetBlocked                               (* parked in the kernel *)
| GetReload                                (* woken / EAGAIN: reload the word *)
| WaitClock (tmo : Z)                      (* wait_for_slow: first clock_gettime *)
| WaitAdd (until tmo : Z)
| WaitWait (until tmo : Z) (v : bool * Z)
| WaitBlocked (until deadline : Z)
| WaitReload (until : Z)
| WaitClock2 (until : Z) (v : bool * Z)
| FinCas (expected : list cbid).           (* on_finish: node built, CAS pending *)

Record thread := { prog : list op; opi : nat; tpc : pc; results : list res; wstart : Z; wtmo : Z }.

Record st := {
  hd : head; fready : bool; fcnt : Z; count : Z; clock : Z;
  vset : bool; ran : list cbid; registered : list cbid; early : bool;  (* early: a callback ran before vset *)
  threads : list thread
}.

Definition mk_thread (p : list op) : thread := {| prog := p; opi := 0; tpc := Idle; results := []; wstart := 0; wtmo := 0 |}.
Definition init (latch_count : Z) (progs : list (list op)) : st :=
  {| hd := HList []; fready := false; fcnt := 0; count := latch_count; clock := 0; vset := false; ran := [];
     registered := []; early := false; threads := map mk_thread progs |}.

Fixpoint set_nth {A} (n : nat) (x : A) (l : list A) : list A :=
  match l, n with
  | [], _ => []
  | _ :: r, O => x :: r
  | y :: r, S n' => y :: set_nth n' x r
  end.

Definition upd_thread (s : st) (t : nat) (th : thread) : st :=
  {| hd := hd s; fready := fready s; fcnt := fcnt s; count := count s; clock := clock s; vset := vset s;
     ran := ran s; registered := registered s; early := early s; threads := set_nth t th (threads s) |}.

Definition finish_op (th : thread) (r : res) : thread :=
  {| prog := prog th; opi := S (opi th); tpc := Idle; results := results th ++ [r]; wstart := wstart th; wtmo := wtmo th |}.
Definition goto (th : thread) (p : pc) : thread :=
  {| prog := prog th; opi := opi th; tpc := p; results := results th; wstart := wstart th; wtmo := wtmo th |}.

Definition with_shared (s : st) (h : head) (fr : bool) (fc : Z) (cnt : Z) (vs : bool) (rn reg : list cbid) (e : bool) : st :=
  {| hd := h; fready := fr; fcnt := fc; count := cnt; clock := clock s; vset := vs; ran := rn; registered := reg;
     early := e; threads := threads s |}.

(* run callbacks: ghost bookkeeping only *)
Definition run_cbs (s : st) (l : list cbid) : st :=
  with_shared s (hd s) (fready s) (fcnt s) (count s) (vset s) (ran s ++ l) (registered s)
              (early s || (negb (vset s) && negb (match l with [] => true | _ => false end))).

(* futex wake_all: every thread parked on the word resumes after its futex_wait *)
Definition wake_thread (th : thread) : thread :=
  match tpc th with
  | GetBlocked => goto th GetReload
  | WaitBlocked u _ => goto th (WaitReload u)
  | _ => th
  end.
Definition wake_all (s : st) : st :=
  {| hd := hd s; fready := fready s; fcnt := fcnt s; count := count s; clock := clock s; vset := vset s;
     ran := ran s; registered := registered s; early := early s; threads := map wake_thread (threads s) |}.

Definition cb_eqb (a b : cbid) : bool := Nat.eqb (fst a) (fst b) && Nat.eqb (snd a) (snd b).
Fixpoint cbs_eqb (a b : list cbid) : bool :=
  match a, b with
  | [], [] => true
  | x :: a', y :: b' => cb_eqb x y && cbs_eqb a' b'
  | _, _ => false
  end.

Definition word_eqb (a b : bool * Z) : bool := Bool.eqb (fst a) (fst b) && Z.eqb (snd a) (snd b).

(* first step of set_value: construct the value, seal the head (exchange, acq_rel) *)
Definition begin_set (s : st) (t : nat) (th : thread) : st :=
  let l := match hd s with HList l => l | HSealed => [] end in
  upd_thread (with_shared s HSealed (fready s) (fcnt s) (count s) true (ran s) (registered s) (early s)) t
             (goto th (SetFutex l)).

Definition step_thread (s : st) (t : nat) (th : thread) : option st :=
  match tpc th with
  | Idle =>
    match nth_error (prog th) (opi th) with
    | None => None                                   (* finished *)
    | Some OSet => Some (begin_set s t th)
    | Some (ODown d) =>                              (* fetch_sub(d, acq_rel) *)
      let c := count s - d in
      let s1 := with_shared s (hd s) (fready s) (fcnt s) c (vset s) (ran s) (registered s) (early s) in
      if latch_fires c then Some (upd_thread s1 t (goto th (SetFutex [])))
                            (* placeholder replaced below: latch reuses the set_value steps *)
      else Some (upd_thread s1 t (finish_op th RDown))
    | Some OGet =>                                   (* load futex (acquire) *)
      if fready s then Some (upd_thread s t (finish_op th (RGet (vset s))))
      else Some (upd_thread s t (goto th GetAdd))
    | Some (OWait tmo) =>
      if fready s then Some (upd_thread s t (finish_op th (RWait true tmo (clock s) (clock s) (vset s))))
      else Some (upd_thread s t
             {| prog := prog th; opi := opi th; tpc := WaitClock (wait_for_clamp tmo); results := results th;
                wstart := clock s; wtmo := tmo |})
    | Some OFin =>                                   (* load head (acquire) *)
      match hd s with
      | HSealed => Some (upd_thread (run_cbs s [(t, opi th)]) t (finish_op th RFin))
      | HList l => Some (upd_thread s t (goto th (FinCas l)))
      end
    | Some OReady =>
      Some (upd_thread s t (finish_op th (RReady (match hd s with HSealed => true | _ => false end))))
    end
  | SetFutex l =>                                    (* exchange(READY_MASK, release) *)
    let waiters := fcnt s in
    let s1 := with_shared s (hd s) true 0 (count s) (vset s) (ran s) (registered s) (early s) in
    if wake_needed waiters then Some (upd_thread s1 t (goto th (SetWake l)))
    else Some (upd_thread s1 t (goto th (SetRun l)))
  | SetWake l => Some (upd_thread (wake_all s) t (goto th (SetRun l)))
  | SetRun l =>                                      (* callbacks were pushed newest-first *)
    let r := match nth_error (prog th) (opi th) with Some (ODown _) => RDown | _ => RSet end in
    Some (upd_thread (run_cbs s l) t (finish_op th r))
  | GetAdd =>                                        (* fetch_add(1, acquire) + 1 *)
    let v := (fready s, fcnt s + 1) in
    let s1 := with_shared s (hd s) (fready s) (fcnt s + 1) (count s) (vset s) (ran s) (registered s) (early s) in
    if fst v then Some (upd_thread s1 t (finish_op th (RGet (vset s))))
    else Some (upd_thread s1 t (goto th (GetWait v)))
  | GetWait v =>                                     (* futex_wait(v, nullptr): kernel compares *)
    if word_eqb (fready s, fcnt s) v then Some (upd_thread s t (goto th GetBlocked))
    else Some (upd_thread s t (goto th GetReload))
  | GetBlocked => None
  | GetReload =>                                     (* load (acquire) *)
    if fready s then Some (upd_thread s t (finish_op th (RGet (vset s))))
    else Some (upd_thread s t (goto th (GetWait (fready s, fcnt s))))
  | WaitClock tmo => Some (upd_thread s t (goto th (WaitAdd (clock s + tmo) tmo)))
  | WaitAdd until tmo =>
    let v := (fready s, fcnt s + 1) in
    let s1 := with_shared s (hd s) (fready s) (fcnt s + 1) (count s) (vset s) (ran s) (registered s) (early s) in
    if fst v then Some (upd_thread s1 t (finish_op th (RWait true (wtmo th) (wstart th) (clock s) (vset s))))
    else Some (upd_thread s1 t (goto th (WaitWait until tmo v)))
  | WaitWait until tmo v =>                          (* futex_wait(v, tmo) *)
    if word_eqb (fready s, fcnt s) v then Some (upd_thread s t (goto th (WaitBlocked until (clock s + tmo))))
    else Some (upd_thread s t (goto th (WaitReload until)))
  | WaitBlocked until deadline =>                    (* only the timeout can resume it by itself *)
    if deadline <=? clock s then Some (upd_thread s t (goto th (WaitReload until))) else None
  | WaitReload until => Some (upd_thread s t (goto th (WaitClock2 until (fready s, fcnt s))))
  | WaitClock2 until v =>                            (* clock_gettime; timeout_ns = until - now *)
    let tmo := remaining until (clock s) in
    if timed_out tmo then Some (upd_thread s t (finish_op th (RWait false (wtmo th) (wstart th) (clock s) (fready s))))
    else if fst v then Some (upd_thread s t (finish_op th (RWait true (wtmo th) (wstart th) (clock s) (vset s))))
    else Some (upd_thread s t (goto th (WaitWait until tmo v)))
  | FinCas expected =>                               (* compare_exchange_weak(head, node, acq_rel) *)
    match hd s with
    | HSealed => Some (upd_thread (run_cbs s [(t, opi th)]) t (finish_op th RFin))
    | HList l =>
      if cbs_eqb l expected then
        Some (upd_thread (with_shared s (HList ((t, opi th) :: l)) (fready s) (fcnt s) (count s) (vset s) (ran s)
                                      ((t, opi th) :: registered s) (early s)) t (finish_op th RFin))
      else Some (upd_thread s t (goto th (FinCas l)))
    end
  end.

(* the latch's count_down reaching zero calls set_value: redirect its first step *)
Definition step_thread' (s : st) (t : nat) (th : thread) : option st :=
  match tpc th, nth_error (prog th) (opi th) with
  | Idle, Some (ODown d) =>
    let c := count s - d in
    let s1 := with_shared s (hd s) (fready s) (fcnt s) c (vset s) (ran s) (registered s) (early s) in
    if latch_fires c then Some (begin_set s1 t th) else Some (upd_thread s1 t (finish_op th RDown))
  | _, _ => step_thread s t th
  end.

Definition step (s : st) (t : nat) : option st :=
  match nth_error (threads s) t with
  | Some th => step_thread' s t th
  | None =>
    if Nat.eqb t (length (threads s)) then        (* the clock advances one unit *)
      Some {| hd := hd s; fready := fready s; fcnt := fcnt s; count := count s; clock := clock s + 1; vset := vset s;
              ran := ran s; registered := registered s; early := early s; threads := threads s |}
    else None
  end.

Definition thread_done (th : thread) : bool :=
  match tpc th, nth_error (prog th) (opi th) with Idle, None => true | _, _ => false end.
Definition all_done (s : st) : bool := forallb thread_done (threads s).
Definition parked_forever (th : thread) : bool := match tpc th with GetBlocked => true | _ => false end.

Definition timed_parked (th : thread) : bool := match tpc th with WaitBlocked _ _ => true | _ => false end.
Definition has_timed_parked (s : st) : bool := existsb timed_parked (threads s).

(* observable outcome of a finished execution, as the implementation driver prints it *)
Definition outcome (s : st) : list (list res) * list cbid := (map results (threads s), ran s).
