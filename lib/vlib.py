"""Shared machinery for /verif/bin/check: translator -> Coq -> harness build -> correspondence ->
monitors -> evidence / VIOLATION lines.  python3 standard library only."""
import fcntl
import glob
import hashlib
import json
import os
import re
import shutil
import subprocess
import sys
import time

VERIF = os.path.dirname(os.path.dirname(os.path.abspath(__file__)))
REPO = os.environ.get("REPO", "/repo")
BUILD = os.path.join(VERIF, "build")
COQ = os.path.join(VERIF, "coq")
NPROC = os.cpu_count() or 8

CXX = os.environ.get("CXX", "g++")
CXXFLAGS = ["-std=gnu++20", "-O1", "-g", "-DFMT_SHARED", "-Wno-error", "-w",
            "-I" + os.path.join(REPO, "src"), "-isystem", "/root/miniconda/include"]
ABSL_LIBS = sorted(glob.glob("/usr/lib/x86_64-linux-gnu/libabsl_*.so"))
LDFLAGS = ["-lprotobuf"] + ABSL_LIBS + ["-latomic", "-L/root/miniconda/lib", "-Wl,-rpath,/root/miniconda/lib",
                                       "-lfmt", "-lpthread"]

FORBIDDEN = re.compile(r"\b(Admitted|admit|Axiom|Axioms|Parameter|Parameters|Conjecture|Conjectures|"
                       r"Admit Obligations|bypass_check|native_compute)\b|Unset\s+Guard|Unset\s+Positivity|"
                       r"Unset\s+Universe\s+Checking|type-in-type|impredicative-set")


def sh(cmd, timeout=None, cwd=None, env=None, input=None):
    """run, never raise; returns (rc, stdout, stderr). rc 124 = timeout."""
    try:
        p = subprocess.run(cmd, cwd=cwd, env=env, input=input, capture_output=True, text=True,
                           timeout=timeout, errors="replace")
        return p.returncode, p.stdout, p.stderr
    except subprocess.TimeoutExpired as e:
        out = e.stdout.decode(errors="replace") if isinstance(e.stdout, bytes) else (e.stdout or "")
        err = e.stderr.decode(errors="replace") if isinstance(e.stderr, bytes) else (e.stderr or "")
        return 124, out, err + "\n[timeout after %ss]" % timeout


class Lock:
    def __init__(self, name):
        os.makedirs(BUILD, exist_ok=True)
        self.path = os.path.join(BUILD, "." + name + ".lock")

    def __enter__(self):
        self.f = open(self.path, "w")
        fcntl.flock(self.f, fcntl.LOCK_EX)
        return self

    def __exit__(self, *a):
        fcntl.flock(self.f, fcntl.LOCK_UN)
        self.f.close()


class Rng:
    """splitmix64: every random choice of a check derives from VERIF_SEED through this."""

    def __init__(self, seed):
        self.s = (seed * 0x9E3779B97F4A7C15 + 0x1234567) & 0xFFFFFFFFFFFFFFFF

    def next(self):
        self.s = (self.s + 0x9E3779B97F4A7C15) & 0xFFFFFFFFFFFFFFFF
        z = self.s
        z = ((z ^ (z >> 30)) * 0xBF58476D1CE4E5B9) & 0xFFFFFFFFFFFFFFFF
        z = ((z ^ (z >> 27)) * 0x94D049BB133111EB) & 0xFFFFFFFFFFFFFFFF
        return z ^ (z >> 31)

    def below(self, n):
        return self.next() % n if n > 0 else 0

    def choice(self, xs):
        return xs[self.below(len(xs))]

    def chance(self, num, den):
        return self.below(den) < num


def known_findings():
    """-> (findings, fixed): lists of dicts {property, sig, text}."""
    path = os.path.join(VERIF, "KNOWN_FINDINGS.txt")
    finds, fixed = [], []
    if os.path.exists(path):
        for line in open(path):
            line = line.strip()
            if not line or line.startswith("#"):
                continue
            m = re.match(r"finding:\s+property=(\S+)\s+sig=(\S+)\s+(.*)", line)
            if m:
                finds.append({"property": m.group(1), "sig": m.group(2), "text": m.group(3)})
                continue
            m = re.match(r"fixed:\s+property=(\S+)\s+(\S+)\s+(.*)", line)
            if m:
                fixed.append({"property": m.group(1), "commit": m.group(2), "text": m.group(3)})
    return finds, fixed


class Check:
    def __init__(self, prop, argv=None):
        argv = list(sys.argv[1:] if argv is None else argv)
        self.prop = prop
        self.tier = os.environ.get("VERIF_TIER", "quick")
        self.replay = None
        while argv:
            a = argv.pop(0)
            if a == "--tier":
                self.tier = argv.pop(0)
            elif a == "--replay":
                self.replay = argv.pop(0)
        if self.tier not in ("quick", "thorough"):
            self.tier = "quick"
        try:
            self.seed = int(os.environ.get("VERIF_SEED", "1"))
        except ValueError:
            self.seed = 1
        self.rng = Rng(self.seed)
        self.t0 = time.time()
        self.broken = []        # [(kind, name, detail)] kind in proof|translator|correspondence|harness
        self.violations = []    # [{sig, what, replay}]
        self.cov = {"obligations": 0, "discharged": 0, "checker_cmd": "", "trusted_base": [],
                    "evaluations": 0, "distinct_nontrivial": 0, "rule": "", "samples": [],
                    "traces_validated_against_impl": 0}
        self.assumptions = []
        self.notes = {}
        os.makedirs(os.path.join(BUILD, "logs"), exist_ok=True)
        os.makedirs(os.path.join(VERIF, "evidence", "replay"), exist_ok=True)

    # ---------------------------------------------------------------- logging
    def log(self, msg):
        print("[%s %6.1fs] %s" % (self.prop, time.time() - self.t0, msg), flush=True)

    def broke(self, kind, name, detail):
        self.broken.append((kind, name, detail))
        self.log("BROKEN %s %s: %s" % (kind, name, detail.strip().splitlines()[-1] if detail.strip() else ""))

    def violate(self, sig, what, replay_obj):
        """a concrete failing input / history against the implementation (or the model)."""
        for v in self.violations:
            if v["sig"] == sig:
                v["count"] += 1
                return
        self.violations.append({"sig": sig, "what": what, "replay": replay_obj, "count": 1})
        self.log("property fails: %s [%s]" % (what, sig))

    # ------------------------------------------------------------- translator
    def translate(self, comps):
        ok = True
        with Lock("coq"):
            for c in comps:
                rc, out, err = sh([sys.executable, os.path.join(VERIF, "translator", "gen.py"), c, "--repo", REPO],
                                  timeout=120)
                if rc != 0:
                    self.broke("translator", c, err or out)
                    ok = False
                else:
                    try:
                        self.notes.setdefault("translated", {})[c] = json.loads(out.strip().splitlines()[-1])["targets"]
                    except Exception:
                        pass
        return ok

    # -------------------------------------------------------------------- coq
    def coq_project(self):
        """(re)generate _CoqProject/Makefile when the file set changed."""
        files = sorted(os.path.relpath(p, COQ) for p in glob.glob(os.path.join(COQ, "**", "*.v"), recursive=True))
        hdr = ["-Q . Verif",
               "-arg -w -arg -notation-overridden,-deprecated-hint-without-locality,"
               "-deprecated-instance-without-locality,-ambiguous-paths,-redundant-canonical-projection"]
        text = "\n".join(hdr + files) + "\n"
        proj = os.path.join(COQ, "_CoqProject")
        if not os.path.exists(proj) or open(proj).read() != text or not os.path.exists(os.path.join(COQ, "Makefile")):
            open(proj, "w").write(text)
            sh(["coq_makefile", "-f", "_CoqProject", "-o", "Makefile"], cwd=COQ, timeout=120)

    def forbidden_scan(self, props_file=None):
        bad = []
        files = glob.glob(os.path.join(COQ, "**", "*.v"), recursive=True)
        if props_file:
            rc, out, err = sh(["coqdep", "-Q", ".", "Verif", "-sort", props_file], cwd=COQ, timeout=120)
            deps = [os.path.join(COQ, x.replace("./", "")) for x in out.split() if x.endswith(".v")]
            if rc == 0 and deps:
                files = deps
        for p in files:
            src = open(p, errors="replace").read()
            src = re.sub(r"\(\*.*?\*\)", " ", src, flags=re.S)
            for i, line in enumerate(src.splitlines(), 1):
                if FORBIDDEN.search(line):
                    bad.append("%s:%d: %s" % (os.path.relpath(p, VERIF), i, line.strip()))
        return bad

    def coq(self, props_file, timeout=900):
        """full .vo build of Properties_<id>.v and everything it needs; collects Print Assumptions."""
        target = props_file.replace(".v", ".vo")
        src = os.path.join(COQ, props_file)
        theorems = re.findall(r"^\s*(?:Theorem|Lemma|Corollary)\s+(\w+)", open(src).read(), flags=re.M)
        self.cov["obligations"] = len(theorems)
        self.cov["checker_cmd"] = "cd /verif/coq && make -k -j%d %s   (coqc 8.16.1, full .vo build)" % (NPROC, target)
        bad = self.forbidden_scan(props_file)
        if bad:
            self.broke("proof", "forbidden-token", "\n".join(bad))
        with Lock("coq"):
            self.coq_project()
            # force the properties file itself to be re-checked on every run so its output is captured
            vo = os.path.join(COQ, target)
            if os.path.exists(vo):
                os.remove(vo)
            rc, out, err = sh(["make", "-k", "-j%d" % NPROC, target], cwd=COQ, timeout=timeout)
        log = out + "\n" + err
        open(os.path.join(BUILD, "logs", self.prop + ".coq.log"), "w").write(log)
        if rc != 0:
            m = re.findall(r'File "\./([^"]+)", line (\d+).*?\n(?:.*\n)*?Error:?\s*(.*)', log)
            names = []
            for f, ln, msg in m:
                names.append("%s:%s %s" % (f, ln, self.enclosing_theorem(os.path.join(COQ, f), int(ln))))
            if rc == 124:
                names.append("timeout")
            self.broke("proof", ", ".join(names) or target, log[-2000:])
            self.cov["discharged"] = 0
            return False
        # parse Print Assumptions output
        closed = out.count("Closed under the global context")
        axioms = set()
        in_ax = False
        for l in out.splitlines():
            if l.startswith("Axioms:"):
                in_ax = True
                continue
            if in_ax:
                mm = re.match(r"^([A-Za-z_][\w.']*)\s*:", l)
                if mm:
                    axioms.add(mm.group(1))
                elif l and not l.startswith(" "):
                    in_ax = False
        self.cov["discharged"] = len(theorems)
        self.notes["print_assumptions"] = {"closed_theorems": closed, "axioms": sorted(axioms)}
        if self.tier == "thorough" and os.environ.get("VERIF_NO_COQCHK") != "1":
            # independent re-check of the compiled files and everything they depend on
            mod = "Verif." + props_file.replace(".v", "").replace("/", ".")
            rc2, out2, err2 = sh(["coqchk", "-o", "-silent", "-Q", ".", "Verif", mod], cwd=COQ, timeout=3000)
            txt = out2 + err2
            summ = txt.split("CONTEXT SUMMARY")[-1] if "CONTEXT SUMMARY" in txt else txt[-800:]
            self.notes["coqchk"] = {"rc": rc2, "cmd": "coqchk -o -silent -Q . Verif " + mod,
                                    "context_summary": " ".join(summ.replace("=", "").split())[:1500]}
            if rc2 != 0:
                self.broke("proof", "coqchk " + mod, txt[-1500:])
        tb = ["Coq 8.16.1 kernel (coqc, full .vo build; vm_compute used, native_compute not used)"]
        if axioms:
            tb.append("axioms reported by Print Assumptions: " + ", ".join(sorted(axioms)))
        else:
            tb.append("Print Assumptions: every property theorem is 'Closed under the global context' (%d)" % closed)
        self.cov["trusted_base"] = tb
        return True

    @staticmethod
    def enclosing_theorem(path, line):
        try:
            lines = open(path).read().splitlines()
        except OSError:
            return ""
        for i in range(min(line, len(lines)) - 1, -1, -1):
            m = re.match(r"\s*(?:Theorem|Lemma|Corollary|Example|Definition|Fixpoint|Fact)\s+(\w+)", lines[i])
            if m:
                return m.group(1)
        return ""

    # ---------------------------------------------------------------- extract
    def extract(self, name, extract_v, driver_ml, timeout=300, explorer=False):
        """coq/Extract/<extract_v> writes <name>_model.ml(i) into build/ocaml/<name>; links with driver."""
        d = os.path.join(BUILD, "ocaml", name)
        os.makedirs(d, exist_ok=True)
        with Lock("ocaml-" + name):
            return self._extract_locked(name, extract_v, driver_ml, timeout, explorer, d)

    def _extract_locked(self, name, extract_v, driver_ml, timeout, explorer, d):
        with Lock("coq"):
            self.coq_project()
            # models the extraction file depends on
            rc, out, err = sh(["coqdep", "-Q", ".", "Verif", "-sort", os.path.join("Extract", extract_v)], cwd=COQ)
            deps = [x for x in out.split() if x.endswith(".v") and not x.endswith(extract_v)]
            tg = [x.replace("./", "").replace(".v", ".vo") for x in deps]
            if tg:
                rc, out, err = sh(["make", "-k", "-j%d" % NPROC] + tg, cwd=COQ, timeout=timeout)
                if rc != 0:
                    self.broke("proof", "model build for extraction " + extract_v, out[-1500:] + err[-1500:])
                    return None
            for old in glob.glob(os.path.join(d, "*_model.ml*")):
                os.remove(old)
            shutil.copy(os.path.join(COQ, "Extract", extract_v), d)
            rc, out, err = sh(["coqc", "-Q", COQ, "Verif", "-w", "-extraction-opaque-accessed,-extraction-reserved-identifier",
                               extract_v], cwd=d, timeout=timeout)
        if rc != 0:
            self.broke("harness", "extraction " + extract_v, out[-1500:] + err[-1500:])
            return None
        mls = sorted(glob.glob(os.path.join(d, "*_model.ml")))
        if not mls:
            self.broke("harness", "extraction " + extract_v, "no *_model.ml produced")
            return None
        mods = "".join("open %s\n" % os.path.basename(m)[:-3].capitalize() for m in mls)
        open(os.path.join(d, driver_ml), "w").write(
            mods + open(os.path.join(VERIF, "ocaml", "zutil.ml")).read() + "\n" +
            (open(os.path.join(VERIF, "ocaml", "explore.ml")).read() + "\n" if explorer else "") +
            open(os.path.join(VERIF, "ocaml", driver_ml)).read())
        exe = os.path.join(d, name + "_driver")
        tmp_exe = exe + ".tmp%d" % os.getpid()
        srcs = []
        for ml in mls:
            mli = ml + "i"
            if os.path.exists(mli):
                srcs.append(os.path.basename(mli))
            srcs.append(os.path.basename(ml))
        rc, out, err = sh(["ocamlfind", "ocamlopt", "-O3", "-w", "-a", "-o", tmp_exe] + srcs + [driver_ml],
                          cwd=d, timeout=timeout)
        if rc != 0:
            rc, out, err = sh(["ocamlfind", "ocamlopt", "-w", "-a", "-o", tmp_exe] + srcs + [driver_ml],
                              cwd=d, timeout=timeout)
        if rc != 0:
            self.broke("harness", "ocaml build " + driver_ml, out[-1500:] + err[-1500:])
            return None
        os.replace(tmp_exe, exe)      # atomic: a concurrent check still running the old binary is not disturbed
        return exe

    # -------------------------------------------------------------------- c++
    def repolib(self, cpps, flags=(), tag="std"):
        """compile the listed /repo/src .cpp files (relative to src/) from the current working tree."""
        d = os.path.join(BUILD, "repolib-" + tag)
        os.makedirs(d, exist_ok=True)
        objs = []
        jobs = []
        with Lock("repolib-" + tag):
            for c in cpps:
                srcp = os.path.join(REPO, "src", c)
                o = os.path.join(d, c.replace("/", "_").replace(".cpp", ".o"))
                objs.append(o)
                if self._stale(o, srcp):
                    extra = ["-fno-access-control"] if ("message.trick" in c or "patch/arena" in c) else []
                    jobs.append((c, [CXX] + CXXFLAGS + list(flags) + extra + ["-MMD", "-c", srcp, "-o", o]))
            procs = []
            failed = None
            for c, cmd in jobs:
                procs.append((c, subprocess.Popen(cmd, stdout=subprocess.PIPE, stderr=subprocess.PIPE, text=True)))
                while len([p for _, p in procs if p.poll() is None]) >= NPROC:
                    time.sleep(0.05)
            for c, p in procs:
                out, err = p.communicate()
                if p.returncode != 0:
                    failed = (c, err)
            if failed:
                self.broke("harness", "compile " + failed[0], failed[1][-2000:])
                return None
        return objs

    def repolib_all(self, flags=(), tag="std"):
        """archive of every /repo/src/**/*.cpp built from the current working tree (incremental)."""
        cpps = sorted(os.path.relpath(p, os.path.join(REPO, "src"))
                      for p in glob.glob(os.path.join(REPO, "src", "**", "*.cpp"), recursive=True))
        objs = self.repolib(cpps, flags, tag)
        if objs is None:
            return None
        d = os.path.join(BUILD, "repolib-" + tag)
        lib = os.path.join(d, "libbabylon_verif.a")
        with Lock("repolib-" + tag):
            stale = [o for o in glob.glob(os.path.join(d, "*.o")) if o not in objs]
            for o in stale:
                os.remove(o)
            if stale or not os.path.exists(lib) or any(os.path.getmtime(o) > os.path.getmtime(lib) for o in objs):
                if os.path.exists(lib):
                    os.remove(lib)
                rc, out, err = sh(["ar", "rcs", lib] + objs)
                if rc != 0:
                    self.broke("harness", "ar", err)
                    return None
        return lib

    @staticmethod
    def _stale(obj, src):
        """obj is stale when its source or any header it included (per the .d file) is newer.  The .d file may
        have been written under another repository root (bin/muttest copies build/ and runs with REPO=<scratch>):
        recorded paths under that root are mapped onto the current REPO, so a header-only change is seen."""
        if not os.path.exists(obj):
            return True
        mt = os.path.getmtime(obj)
        dfile = obj[:-2] + ".d"
        deps = [src]
        if os.path.exists(dfile):
            txt = open(dfile).read().replace("\\\n", " ")
            rec = txt.split(":", 1)[1].split() if ":" in txt else []
            rel = os.path.relpath(src, REPO)
            old_root = None
            for d in rec:
                if d.endswith("/" + rel):
                    old_root = d[:-len(rel) - 1]
                    break
            if old_root and os.path.abspath(old_root) != os.path.abspath(REPO):
                rec = [REPO + d[len(old_root):] if d.startswith(old_root + "/") else d for d in rec]
            deps += rec
        for dpath in deps:
            try:
                if os.path.getmtime(dpath) > mt:
                    return True
            except OSError:
                return True
        return False

    def build_cpp(self, name, sources, objs=(), flags=(), ldflags=(), timeout=600):
        d = os.path.join(BUILD, "bin")
        os.makedirs(d, exist_ok=True)
        exe = os.path.join(d, name)
        tmp_exe = exe + ".tmp%d" % os.getpid()
        cmd = [CXX] + CXXFLAGS + ["-I" + os.path.join(VERIF, "harness")] + list(flags) + list(sources) + list(objs) + \
              ["-o", tmp_exe] + list(ldflags) + LDFLAGS
        rc, out, err = sh(cmd, timeout=timeout)
        if rc != 0:
            self.broke("harness", "compile " + name, err[-3000:])
            return None
        os.replace(tmp_exe, exe)
        return exe

    # ------------------------------------------------------ weak-memory search
    def wm_litmus(self, name, imports, safe_expr, progs_expr, bad_expr, what, machine="TSO"):
        """evaluates a boolean litmus check of coq/WM inside Coq (vm_compute).  When it is false the
        extracted... no: the same Coq session searches a witness schedule (WM.TSO.witness) - a model-level
        execution on the store-buffer machine - and the violation is reported with it as the replay."""
        d = os.path.join(BUILD, "wm")
        os.makedirs(d, exist_ok=True)
        src = os.path.join(d, "L_%s_%s.v" % (self.prop, re.sub(r"\W", "_", name)))
        open(src, "w").write(
            "From Coq Require Import ZArith List Bool. Import ListNotations.\n" +
            ("Require Import Verif.Base.Atomics Verif.WM.TSO Verif.WM.Litmus.\n" if machine == "TSO" else
             "Require Import Verif.Base.Atomics Verif.WM.RA Verif.WM.RALitmus.\n") + imports + "\n"
            "Eval vm_compute in (%s).\nEval vm_compute in (witness (%s) (%s)).\n" % (safe_expr, progs_expr, bad_expr))
        mods = set(re.findall(r"Verif\.([\w.]+)", imports))
        mods |= {"WM.TSO", "WM.Litmus"} if machine == "TSO" else {"WM.RA", "WM.RALitmus"}
        targets = [m.rstrip(".").replace(".", "/") + ".vo" for m in mods]
        with Lock("coq"):
            self.coq_project()
            sh(["make", "-k", "-j%d" % NPROC] + targets, cwd=COQ, timeout=900)   # models of the litmus, fresh Gen
            rc, out, err = sh(["coqc", "-Q", COQ, "Verif", src], cwd=d, timeout=300)
        if rc != 0:
            self.broke("proof", "wm-litmus " + name, (out + err)[-1500:])
            return None
        vals = re.findall(r"=\s*((?:.|\n)*?)\n\s*:\s", out)
        safe = bool(vals) and vals[0].strip() == "true"
        self.notes.setdefault("wm_litmus", {})[name] = {"safe": safe, "expr": safe_expr}
        if not safe:
            wit = " ".join(vals[1].split()) if len(vals) > 1 else "?"
            mname = "store-buffer machine" if machine == "TSO" else "release/acquire view machine"
            self.violate("wm-" + name, what + " (%s, model-level execution): schedule %s" % (mname, wit),
                         {"level": "model", "machine": "coq/WM/%s.v" % machine, "litmus": name, "programs": progs_expr,
                          "schedule": wit})
        return safe

    # ------------------------------------------------------------- case runner
    def run_cases(self, exe, lines, timeout=600, jobs=None, env=None):
        """feeds one case per line to `exe` (which prints exactly one line per case, starting with the
        case id = first word of the input line).  A driver that dies or gets stuck mid-way (DSCHED-STUCK,
        crash) is restarted on the remaining cases.  Returns {case_id: output line}; stuck/crash lines are
        returned under the id of the case that was running."""
        jobs = jobs or NPROC
        chunks = [lines[i::jobs] for i in range(jobs)]
        chunks = [c for c in chunks if c]
        results = {}

        def work(chunk):
            out_map = {}
            pending = list(chunk)
            guard = 0
            tmo = timeout
            hangs = 0
            while pending and guard < 10000:
                guard += 1
                rc, out, err = sh([exe], input="".join(l + "\n" for l in pending), timeout=tmo, env=env)
                if rc == 124:
                    # a case that never returns: the rest of the chunk gets a short budget (cases take milliseconds),
                    # and after a few hangs the remaining cases of this chunk are given up (reported as not run)
                    hangs += 1
                    tmo = min(tmo, 120)
                giveup = rc == 124 and hangs > 3
                ids = [l.split()[0] for l in pending]
                outs = [l for l in out.splitlines() if l.strip()]
                done = 0
                stuck_last = False
                for l in outs:
                    w = l.split()[0]
                    if done < len(ids) and w == ids[done]:
                        out_map[ids[done]] = l
                        done += 1
                        stuck_last = False
                    elif l.startswith("DSCHED-STUCK") and done < len(ids):
                        out_map[ids[done]] = l
                        done += 1
                        stuck_last = True
                if rc == 0 and done >= len(ids):
                    break
                if done < len(ids) and ids[done] not in out_map and not stuck_last:
                    out_map[ids[done]] = "CRASH rc=%d %s" % (rc, (err or "").strip().replace("\n", " ")[-300:])
                    done += 1
                pending = pending[done:]
                if giveup:
                    for l in pending:
                        out_map.setdefault(l.split()[0], "CRASH rc=124 not run: the driver hung on %d earlier cases of this chunk" % hangs)
                    break
            return out_map

        import concurrent.futures
        with concurrent.futures.ThreadPoolExecutor(max_workers=len(chunks) or 1) as ex:
            for m in ex.map(work, chunks):
                results.update(m)
        return results

    # ----------------------------------------------------------------- finish
    def sample(self, obj, limit=6):
        if len(self.cov["samples"]) < limit:
            self.cov["samples"].append(obj)

    def finish(self, level="proof"):
        finds, _fixed = known_findings()
        known = {(f["property"], f["sig"]): f for f in finds}
        rc = 0
        lines = []
        nviol = 0
        seen_known = set()
        for v in self.violations:
            key = (self.prop, v["sig"])
            if key in known:
                if key not in seen_known:
                    lines.append("KNOWN-FINDING: property=%s %s" % (self.prop, known[key]["text"]))
                    seen_known.add(key)
                continue
            nviol += 1
            h = hashlib.sha1(json.dumps(v["replay"], sort_keys=True, default=str).encode()).hexdigest()[:10]
            path = os.path.join(VERIF, "evidence", "replay", "%s-%s.json" % (self.prop, h))
            json.dump({"property": self.prop, "signature": v["sig"], "what": v["what"], "replay": v["replay"],
                       "how_to_replay": "bin/check %s --replay %s" % (self.prop, path)}, open(path, "w"), indent=1,
                      default=str)
            lines.append("VIOLATION property=%s replay=%s" % (self.prop, path))
            rc = 1
        if self.broken and nviol == 0:
            h = hashlib.sha1(json.dumps(self.broken, default=str).encode()).hexdigest()[:10]
            path = os.path.join(VERIF, "evidence", "replay", "%s-broken-%s.json" % (self.prop, h))
            json.dump({"property": self.prop,
                       "no_longer_checks": [{"kind": k, "name": n, "detail": d[-3000:]} for k, n, d in self.broken],
                       "note": "a proof obligation, the translator or the model/implementation correspondence no "
                               "longer checks and the search found no input on which the property itself fails"},
                      open(path, "w"), indent=1)
            lines.append("VIOLATION property=%s replay=%s no-failing-input-found" % (self.prop, path))
            rc = 1
        elif self.broken:
            rc = 1
        for l in lines:
            print(l, flush=True)
        cov = dict(self.cov)
        if self.broken:
            cov["discharged"] = min(cov["discharged"], max(0, cov["obligations"] - len(
                [b for b in self.broken if b[0] in ("proof", "translator")])))
            cov["broken"] = [{"kind": k, "name": n} for k, n, _ in self.broken]
        cov.update(self.notes)
        ev = {"property_id": self.prop, "tier": self.tier, "seed": self.seed, "level": level, "coverage": cov,
              "assumptions": self.assumptions, "wall_s": round(time.time() - self.t0, 2), "violations": nviol,
              "known_findings_seen": sorted(s for _, s in seen_known)}
        json.dump(ev, open(os.path.join(VERIF, "evidence", self.prop + ".json"), "w"), indent=1, default=str)
        self.log("done rc=%d violations=%d broken=%d wall=%.1fs" % (rc, nviol, len(self.broken), time.time() - self.t0))
        sys.exit(rc)
