// C12 protobuf part: ArenaExample (test/proto/arena_example.proto) managed by a real SwissManager BOTH ways -
//   typed : manager.create_object<ArenaExample>()                         (ReusableTraits<T : Message>)
//   base  : manager.create_object<google::protobuf::Message>(creator)     (ReusableTraits<Message>, reflection path)
// against an ordinary heap message driven by the same setters (monitors only, no model).
// stdin: "<id> Q <seed>"  vector-of-messages special-member sequences (see run_q), or
//        "<id> P <interval> <cycles> <seed> <vary>"   vary=1: heavy (nested sub-messages, strings, repeated) and light
//        (scalars only) workloads alternate, so fields used in one cycle are untouched in the next
// stdout: "<id> <observations> | monitor_t=0/1 ... monitor_b=0/1 ..."   (_t typed, _b base-registered)
#include "babylon/reusable/manager.h"
#include "babylon/reusable/message.h"
#include "babylon/reusable/vector.h"

#include <arena_example.pb.h>

#include <cstdio>
#include <iostream>
#include <sstream>
#include <string>
#include <vector>

using namespace babylon;

static uint64_t rng_state;
static uint64_t rnd() {
  rng_state += 0x9E3779B97F4A7C15ull;
  uint64_t z = rng_state;
  z = (z ^ (z >> 30)) * 0xBF58476D1CE4E5B9ull;
  z = (z ^ (z >> 27)) * 0x94D049BB133111EBull;
  return z ^ (z >> 31);
}

static void fill(ArenaExample& m, int depth) {
  unsigned n = 2 + rnd() % 8;
  for (unsigned i = 0; i < n; ++i) {
    unsigned k = rnd() % 9;
    size_t len = rnd() % 60;
    char ch = (char)('a' + rnd() % 26);
    switch (k) {
      case 0: m.set_p(rnd()); break;
      case 1: m.set_s(std::string(len, ch)); break;
      case 2: if (depth < 2) fill(*m.mutable_m(), depth + 1); break;
      case 3: for (unsigned j = 0; j < len % 9; ++j) m.add_rp(rnd()); break;
      case 4: for (unsigned j = 0; j < len % 5; ++j) m.add_rs(std::string(len + j, ch)); break;
      case 5: if (depth < 2) for (unsigned j = 0; j < 1 + len % 3; ++j) fill(*m.add_rm(), depth + 1); break;
      case 6: m.set_e(ArenaExample::ENUM2); break;
      case 7: for (unsigned j = 0; j < len % 4; ++j) m.add_re(j % 2 ? ArenaExample::ENUM1 : ArenaExample::ENUM2); break;
      default: m.set_ds(std::string(len, ch)); break;
    }
  }
}

// the workload of cycle c: heavy = random fill, with singular sub-messages nested two levels forced for odd seeds
static void workload(ArenaExample& m, uint64_t seed, int c, bool vary) {
  rng_state = seed;
  if (vary && c % 2 == 0) {   // light cycle: scalars only, everything used before stays untouched
    m.set_p(rnd());
    if (rnd() % 2) m.set_e(ArenaExample::ENUM1);
    return;
  }
  if (seed & 1) {
    m.mutable_m()->mutable_m()->set_p(rnd());
    m.mutable_m()->set_s(std::string(20 + rnd() % 30, 'q'));
    m.add_rm()->mutable_m()->mutable_m()->set_s("nested");
  }
  fill(m, 0);
}

// equal to a freshly constructed message: no has-bit at any level, nothing repeated, zero bytes, same text, default back
static bool is_fresh(const ArenaExample& m) {
  static const ArenaExample empty;
  return m.SerializeAsString() == empty.SerializeAsString() && m.ByteSizeLong() == 0 &&
         m.DebugString() == empty.DebugString() && m.ds() == "10086" && !m.has_p() && !m.has_s() && !m.has_m() &&
         !m.has_e() && !m.has_ds() && m.rs_size() == 0 && m.rm_size() == 0 && m.rp_size() == 0 && m.re_size() == 0;
}

struct Verdict { bool same = true, fresh = true, acc_ok = true, on_arena = true, no_growth = true; std::string obs; };

template <class ACC, class GET>
static Verdict drive(SwissManager& manager, ACC acc, GET get, size_t itv, int cycles, uint64_t seed, bool vary) {
  Verdict v;
  size_t since = 0;
  int first_recreate = -1;
  std::vector<size_t> used_after;
  for (int c = 1; c <= cycles; ++c) {
    if (!acc || !manager.resource().contains(acc.get())) { v.acc_ok = false; break; }
    ArenaExample* m = get(acc);
    if (!is_fresh(*m)) v.fresh = false;          // also before the first use
    ArenaExample ref;
    workload(*m, seed, c, vary);
    workload(ref, seed, c, vary);
    if (m->SerializeAsString() != ref.SerializeAsString() || m->ds() != ref.ds() || m->DebugString() != ref.DebugString())
      v.same = false;
    if (m->GetArena() == nullptr) v.on_arena = false;
    v.obs += " W=" + std::to_string(ref.ByteSizeLong());
    manager.clear();
    ++since;
    bool expect_recreate = since >= itv;
    if (expect_recreate) { since = 0; if (first_recreate < 0) first_recreate = c; }
    if (!acc || !manager.resource().contains(acc.get())) { v.acc_ok = false; break; }
    m = get(acc);
    if (!is_fresh(*m)) { v.fresh = false; v.obs += " C!" + std::to_string(m->ByteSizeLong()) + (expect_recreate ? "r" : "c"); }
    used_after.push_back(manager.resource().space_used());
    size_t period = itv == 0 ? 1 : itv;
    int prev = c - (int)period;
    // same phase of the recreate period, both after the second recreate: what the resource holds does not grow
    if (!vary && first_recreate > 0 && prev >= first_recreate + (int)period && used_after[c - 1] > used_after[prev - 1])
      v.no_growth = false;
  }
  return v;
}

// ---- Q cases: SwissVector<ArenaExample> (message elements) against std::vector of keys, two objects, two resources,
// every special member function / swap flavour, both objects used afterwards; seeded random sequence, monitors only
static ArenaExample make_msg(int k) {
  ArenaExample m;
  if (k == 0) return m;
  m.set_p((uint64_t)k);
  if (k % 3 == 0) m.mutable_m()->set_s(std::string((size_t)k % 40, 'x'));
  if (k % 2 == 0) m.add_rs("r" + std::to_string(k));
  return m;
}
using MV = SwissVector<ArenaExample>;
static bool same_mv(const MV& v, const std::vector<int>& r) {
  if (v.size() != r.size()) return false;
  for (size_t i = 0; i < r.size(); ++i) if (v[i].SerializeAsString() != make_msg(r[i]).SerializeAsString()) return false;
  return true;
}
static bool inv_mv(const MV& v) {
  return v.size() <= v.constructed_size() && v.constructed_size() <= v.capacity() && (v.capacity() == 0 || v.data() != nullptr);
}
static void run_q(const std::string& id, uint64_t seed) {
  rng_state = seed;
  SwissMemoryResource r1, r2;
  SwissAllocator<> al {r1}, al2 {r2};
  MV* a = new MV(al);
  MV* b = new MV(al);
  std::vector<int> ra, rb;
  std::string trace;
  bool std_eq = true, size_le = true;
  int first_bad = -1;
  int nops = 12 + (int)(rnd() % 20);
  for (int i = 0; i < nops; ++i) {
    bool ab = rnd() % 2;
    MV*& d = ab ? a : b;  MV*& s = ab ? b : a;
    std::vector<int>& rd = ab ? ra : rb;  std::vector<int>& rs = ab ? rb : ra;
    const char* dn = ab ? "a" : "b";
    int k = 1 + (int)(rnd() % 60);
    ArenaExample x = make_msg(k);
    size_t pos = rd.empty() ? 0 : rnd() % (rd.size() + 1);
    size_t n = rnd() % 4;
    bool same_alloc = d->get_allocator() == s->get_allocator();
    unsigned op = (unsigned)(rnd() % 20);
    char buf[64];
    switch (op) {
      case 0: case 1: case 2: d->push_back(x); rd.push_back(k); snprintf(buf, sizeof buf, "%s.pb.%d", dn, k); break;
      case 3: if (!rd.empty()) { d->pop_back(); rd.pop_back(); } snprintf(buf, sizeof buf, "%s.pop", dn); break;
      case 4: d->insert(d->begin() + pos, x); rd.insert(rd.begin() + pos, k); snprintf(buf, sizeof buf, "%s.ins.%zu.%d", dn, pos, k); break;
      case 5: d->insert(d->begin() + pos, n, x); rd.insert(rd.begin() + pos, n, k); snprintf(buf, sizeof buf, "%s.insn.%zu.%zu.%d", dn, pos, n, k); break;
      case 6: { size_t j = pos + (rd.size() > pos ? rnd() % (rd.size() - pos + 1) : 0);
                d->erase(d->begin() + pos, d->begin() + j); rd.erase(rd.begin() + pos, rd.begin() + j);
                snprintf(buf, sizeof buf, "%s.er.%zu.%zu", dn, pos, j); break; }
      case 7: d->resize(n + pos); rd.resize(n + pos, 0); snprintf(buf, sizeof buf, "%s.rs.%zu", dn, n + pos); break;
      case 8: d->clear(); rd.clear(); snprintf(buf, sizeof buf, "%s.clr", dn); break;
      case 9: d->assign(n, x); rd.assign(n, k); snprintf(buf, sizeof buf, "%s.asn.%zu.%d", dn, n, k); break;
      case 10: d->reserve(n * 5); snprintf(buf, sizeof buf, "%s.res.%zu", dn, n * 5); break;
      case 11: if (same_alloc) { if (i & 1) d->swap(*s); else std::swap(*d, *s); rd.swap(rs); } snprintf(buf, sizeof buf, "swap"); break;
      case 12: *d = *s; rd = rs; snprintf(buf, sizeof buf, "cp->%s", dn); break;
      case 13: *d = std::move(*s); s->clear(); rd = std::move(rs); rs.clear(); snprintf(buf, sizeof buf, "mv->%s", dn); break;
      case 14: { MV* f = new MV(*s); delete d; d = f; rd = rs; snprintf(buf, sizeof buf, "cc->%s", dn); break; }
      case 15: { MV* f = new MV(*s, (rnd() % 2) ? al : al2); delete d; d = f; rd = rs; snprintf(buf, sizeof buf, "cx->%s", dn); break; }
      case 16: case 17: { MV* f = new MV(std::move(*s)); delete d; d = f; rd = std::move(rs); rs.clear();
                          snprintf(buf, sizeof buf, "mc->%s", dn); break; }
      default: { SwissAllocator<> t = (rnd() % 2) ? al : al2; bool sm = t == s->get_allocator();
                 MV* f = new MV(std::move(*s), t); if (!sm) s->clear(); delete d; d = f; rd = std::move(rs); rs.clear();
                 snprintf(buf, sizeof buf, "mx->%s%s", dn, sm ? "s" : "d"); break; }
    }
    trace += " "; trace += buf;
    if (!inv_mv(*a) || !inv_mv(*b)) { size_le = false; if (first_bad < 0) first_bad = i; break; }   // corrupt: stop, leak
    if (!same_mv(*a, ra) || !same_mv(*b, rb)) { if (std_eq) first_bad = i; std_eq = false; }
  }
  if (size_le) { delete a; delete b; }
  printf("%s%s | std_eq=%d size_le=%d first_bad=%d\n", id.c_str(), trace.c_str(), std_eq, size_le, first_bad);
}

int main() {
  std::string line;
  while (std::getline(std::cin, line)) {
    std::istringstream is(line);
    std::string id, mode;
    size_t itv; int cycles; uint64_t seed; int vary = 0;
    if (!(is >> id >> mode)) continue;
    if (mode == "Q") { uint64_t sd = 0; is >> sd; run_q(id, sd); fflush(stdout); continue; }
    if (!(is >> itv >> cycles >> seed)) continue;
    is >> vary;
    Verdict t, b;
    {
      SwissManager manager;
      manager.set_recreate_interval(itv);
      auto acc = manager.create_object<ArenaExample>();
      t = drive(manager, acc, [](ReusableAccessor<ArenaExample>& a) { return a.get(); }, itv, cycles, seed, vary != 0);
    }
    {
      SwissManager manager;
      manager.set_recreate_interval(itv);
      auto acc = manager.create_object<::google::protobuf::Message>([](SwissMemoryResource& resource) {
        ::google::protobuf::Arena& arena = resource;
#if GOOGLE_PROTOBUF_VERSION >= 5026000
        ::google::protobuf::Message* result = ::google::protobuf::Arena::Create<ArenaExample>(&arena);
#else
        ::google::protobuf::Message* result = ::google::protobuf::Arena::CreateMessage<ArenaExample>(&arena);
#endif
        return result;
      });
      b = drive(manager, acc,
                [](ReusableAccessor<::google::protobuf::Message>& a) { return static_cast<ArenaExample*>(a.get()); }, itv,
                cycles, seed, vary != 0);
    }
    printf("%s T:%s B:%s | same_t=%d fresh_t=%d acc_ok_t=%d on_arena_t=%d no_growth_t=%d same_b=%d fresh_b=%d acc_ok_b=%d "
           "on_arena_b=%d no_growth_b=%d\n", id.c_str(), t.obs.c_str(), b.obs.c_str(), t.same, t.fresh, t.acc_ok, t.on_arena,
           t.no_growth, b.same, b.fresh, b.acc_ok, b.on_arena, b.no_growth);
    fflush(stdout);
  }
  return 0;
}
