// C12 protobuf part: a reflection-managed ArenaExample (test/proto/arena_example.proto) under a real SwissManager,
// against an ordinary heap message driven by the same setters (monitors only, no model).
// stdin: "<id> P <interval> <cycles> <seed>"; stdout: "<id> <observations> | monitor=0/1 ..."
#include "babylon/reusable/manager.h"
#include "babylon/reusable/message.h"

#include <arena_example.pb.h>

#include <cstdio>
#include <iostream>
#include <sstream>
#include <string>

using namespace babylon;

static uint64_t rng_state;
static uint64_t rnd() {
  rng_state += 0x9E3779B97F4A7C15ull;
  uint64_t z = rng_state;
  z = (z ^ (z >> 30)) * 0xBF58476D1CE4E5B9ull;
  z = (z ^ (z >> 27)) * 0x94D049BB133111EBull;
  return z ^ (z >> 31);
}

static void fill(ArenaExample& m, int depth) {
  unsigned n = 2 + rnd() % 8;
  for (unsigned i = 0; i < n; ++i) {
    unsigned k = rnd() % 9;
    size_t len = rnd() % 60;
    char ch = (char)('a' + rnd() % 26);
    switch (k) {
      case 0: m.set_p(rnd()); break;
      case 1: m.set_s(std::string(len, ch)); break;
      case 2: if (depth < 2) fill(*m.mutable_m(), depth + 1); break;
      case 3: for (unsigned j = 0; j < len % 9; ++j) m.add_rp(rnd()); break;
      case 4: for (unsigned j = 0; j < len % 5; ++j) m.add_rs(std::string(len + j, ch)); break;
      case 5: if (depth < 2) for (unsigned j = 0; j < 1 + len % 3; ++j) fill(*m.add_rm(), depth + 1); break;
      case 6: m.set_e(ArenaExample::ENUM2); break;
      case 7: for (unsigned j = 0; j < len % 4; ++j) m.add_re(j % 2 ? ArenaExample::ENUM1 : ArenaExample::ENUM2); break;
      default: m.set_ds(std::string(len, ch)); break;
    }
  }
}

int main() {
  std::string line;
  while (std::getline(std::cin, line)) {
    std::istringstream is(line);
    std::string id, mode;
    size_t itv; int cycles; uint64_t seed;
    if (!(is >> id >> mode >> itv >> cycles >> seed)) continue;
    bool same = true, fresh = true, acc_ok = true, no_growth = true, on_arena = true;
    std::string out = id;
    {
      SwissManager manager;
      manager.set_recreate_interval(itv);
      auto acc = manager.create_object<ArenaExample>();
      ArenaExample empty;
      size_t since = 0;
      int first_recreate = -1;
      std::vector<size_t> used_after;
      for (int c = 1; c <= cycles; ++c) {
        if (!acc || !manager.resource().contains(acc.get())) { acc_ok = false; break; }
        ArenaExample ref;
        rng_state = seed; fill(*acc, 0);
        rng_state = seed; fill(ref, 0);
        if (acc->SerializeAsString() != ref.SerializeAsString() || acc->ds() != ref.ds()) same = false;
        if (acc->GetArena() == nullptr) on_arena = false;
        out += " W=" + std::to_string(ref.ByteSizeLong());
        manager.clear();
        ++since;
        bool expect_recreate = since >= itv;
        if (expect_recreate) { since = 0; if (first_recreate < 0) first_recreate = c; }
        if (!acc || !manager.resource().contains(acc.get())) { acc_ok = false; break; }
        // equal to a freshly constructed message: no has-bit, nothing repeated, zero bytes on the wire, default string back
        if (acc->SerializeAsString() != empty.SerializeAsString() || acc->ByteSizeLong() != 0 || acc->ds() != "10086" ||
            acc->has_p() || acc->has_s() || acc->has_m() || acc->has_e() || acc->has_ds() || acc->rs_size() != 0 ||
            acc->rm_size() != 0 || acc->rp_size() != 0 || acc->re_size() != 0) fresh = false;
        used_after.push_back(manager.resource().space_used());
        size_t period = itv == 0 ? 1 : itv;
        int prev = c - (int)period;
        // same phase of the recreate period, both after the second recreate: what the resource holds does not grow
        if (first_recreate > 0 && prev >= first_recreate + (int)period && used_after[c - 1] > used_after[prev - 1]) no_growth = false;
        out += " C=" + std::to_string(used_after.back());
      }
    }
    printf("%s | same=%d fresh=%d acc_ok=%d on_arena=%d no_growth=%d\n", out.c_str(), same, fresh, acc_ok, on_arena, no_growth);
    fflush(stdout);
  }
  return 0;
}
