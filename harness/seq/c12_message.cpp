// C12 protobuf part: ArenaExample (test/proto/arena_example.proto) managed by a real SwissManager BOTH ways -
//   typed : manager.create_object<ArenaExample>()                         (ReusableTraits<T : Message>)
//   base  : manager.create_object<google::protobuf::Message>(creator)     (ReusableTraits<Message>, reflection path)
// against an ordinary heap message driven by the same setters (monitors only, no model).
// stdin: "<id> P <interval> <cycles> <seed> <vary>"   vary=1: heavy (nested sub-messages, strings, repeated) and light
//        (scalars only) workloads alternate, so fields used in one cycle are untouched in the next
// stdout: "<id> <observations> | monitor_t=0/1 ... monitor_b=0/1 ..."   (_t typed, _b base-registered)
#include "babylon/reusable/manager.h"
#include "babylon/reusable/message.h"

#include <arena_example.pb.h>

#include <cstdio>
#include <iostream>
#include <sstream>
#include <string>
#include <vector>

using namespace babylon;

static uint64_t rng_state;
static uint64_t rnd() {
  rng_state += 0x9E3779B97F4A7C15ull;
  uint64_t z = rng_state;
  z = (z ^ (z >> 30)) * 0xBF58476D1CE4E5B9ull;
  z = (z ^ (z >> 27)) * 0x94D049BB133111EBull;
  return z ^ (z >> 31);
}

static void fill(ArenaExample& m, int depth) {
  unsigned n = 2 + rnd() % 8;
  for (unsigned i = 0; i < n; ++i) {
    unsigned k = rnd() % 9;
    size_t len = rnd() % 60;
    char ch = (char)('a' + rnd() % 26);
    switch (k) {
      case 0: m.set_p(rnd()); break;
      case 1: m.set_s(std::string(len, ch)); break;
      case 2: if (depth < 2) fill(*m.mutable_m(), depth + 1); break;
      case 3: for (unsigned j = 0; j < len % 9; ++j) m.add_rp(rnd()); break;
      case 4: for (unsigned j = 0; j < len % 5; ++j) m.add_rs(std::string(len + j, ch)); break;
      case 5: if (depth < 2) for (unsigned j = 0; j < 1 + len % 3; ++j) fill(*m.add_rm(), depth + 1); break;
      case 6: m.set_e(ArenaExample::ENUM2); break;
      case 7: for (unsigned j = 0; j < len % 4; ++j) m.add_re(j % 2 ? ArenaExample::ENUM1 : ArenaExample::ENUM2); break;
      default: m.set_ds(std::string(len, ch)); break;
    }
  }
}

// the workload of cycle c: heavy = random fill, with singular sub-messages nested two levels forced for odd seeds
static void workload(ArenaExample& m, uint64_t seed, int c, bool vary) {
  rng_state = seed;
  if (vary && c % 2 == 0) {   // light cycle: scalars only, everything used before stays untouched
    m.set_p(rnd());
    if (rnd() % 2) m.set_e(ArenaExample::ENUM1);
    return;
  }
  if (seed & 1) {
    m.mutable_m()->mutable_m()->set_p(rnd());
    m.mutable_m()->set_s(std::string(20 + rnd() % 30, 'q'));
    m.add_rm()->mutable_m()->mutable_m()->set_s("nested");
  }
  fill(m, 0);
}

// equal to a freshly constructed message: no has-bit at any level, nothing repeated, zero bytes, same text, default back
static bool is_fresh(const ArenaExample& m) {
  static const ArenaExample empty;
  return m.SerializeAsString() == empty.SerializeAsString() && m.ByteSizeLong() == 0 &&
         m.DebugString() == empty.DebugString() && m.ds() == "10086" && !m.has_p() && !m.has_s() && !m.has_m() &&
         !m.has_e() && !m.has_ds() && m.rs_size() == 0 && m.rm_size() == 0 && m.rp_size() == 0 && m.re_size() == 0;
}

struct Verdict { bool same = true, fresh = true, acc_ok = true, on_arena = true, no_growth = true; std::string obs; };

template <class ACC, class GET>
static Verdict drive(SwissManager& manager, ACC acc, GET get, size_t itv, int cycles, uint64_t seed, bool vary) {
  Verdict v;
  size_t since = 0;
  int first_recreate = -1;
  std::vector<size_t> used_after;
  for (int c = 1; c <= cycles; ++c) {
    if (!acc || !manager.resource().contains(acc.get())) { v.acc_ok = false; break; }
    ArenaExample* m = get(acc);
    if (!is_fresh(*m)) v.fresh = false;          // also before the first use
    ArenaExample ref;
    workload(*m, seed, c, vary);
    workload(ref, seed, c, vary);
    if (m->SerializeAsString() != ref.SerializeAsString() || m->ds() != ref.ds() || m->DebugString() != ref.DebugString())
      v.same = false;
    if (m->GetArena() == nullptr) v.on_arena = false;
    v.obs += " W=" + std::to_string(ref.ByteSizeLong());
    manager.clear();
    ++since;
    bool expect_recreate = since >= itv;
    if (expect_recreate) { since = 0; if (first_recreate < 0) first_recreate = c; }
    if (!acc || !manager.resource().contains(acc.get())) { v.acc_ok = false; break; }
    m = get(acc);
    if (!is_fresh(*m)) { v.fresh = false; v.obs += " C!" + std::to_string(m->ByteSizeLong()) + (expect_recreate ? "r" : "c"); }
    used_after.push_back(manager.resource().space_used());
    size_t period = itv == 0 ? 1 : itv;
    int prev = c - (int)period;
    // same phase of the recreate period, both after the second recreate: what the resource holds does not grow
    if (!vary && first_recreate > 0 && prev >= first_recreate + (int)period && used_after[c - 1] > used_after[prev - 1])
      v.no_growth = false;
  }
  return v;
}

int main() {
  std::string line;
  while (std::getline(std::cin, line)) {
    std::istringstream is(line);
    std::string id, mode;
    size_t itv; int cycles; uint64_t seed; int vary = 0;
    if (!(is >> id >> mode >> itv >> cycles >> seed)) continue;
    is >> vary;
    Verdict t, b;
    {
      SwissManager manager;
      manager.set_recreate_interval(itv);
      auto acc = manager.create_object<ArenaExample>();
      t = drive(manager, acc, [](ReusableAccessor<ArenaExample>& a) { return a.get(); }, itv, cycles, seed, vary != 0);
    }
    {
      SwissManager manager;
      manager.set_recreate_interval(itv);
      auto acc = manager.create_object<::google::protobuf::Message>([](SwissMemoryResource& resource) {
        ::google::protobuf::Arena& arena = resource;
#if GOOGLE_PROTOBUF_VERSION >= 5026000
        ::google::protobuf::Message* result = ::google::protobuf::Arena::Create<ArenaExample>(&arena);
#else
        ::google::protobuf::Message* result = ::google::protobuf::Arena::CreateMessage<ArenaExample>(&arena);
#endif
        return result;
      });
      b = drive(manager, acc,
                [](ReusableAccessor<::google::protobuf::Message>& a) { return static_cast<ArenaExample*>(a.get()); }, itv,
                cycles, seed, vary != 0);
    }
    printf("%s T:%s B:%s | same_t=%d fresh_t=%d acc_ok_t=%d on_arena_t=%d no_growth_t=%d same_b=%d fresh_b=%d acc_ok_b=%d "
           "on_arena_b=%d no_growth_b=%d\n", id.c_str(), t.obs.c_str(), b.obs.c_str(), t.same, t.fresh, t.acc_ok, t.on_arena,
           t.no_growth, b.same, b.fresh, b.acc_ok, b.on_arena, b.no_growth);
    fflush(stdout);
  }
  return 0;
}
