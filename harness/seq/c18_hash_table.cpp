// C18 sequential driver: real ConcurrentTransientHashSet / ConcurrentTransientHashMap against std::map
// stdin : "<id> <type> <hash kind> <ctorA> <ctorB> <op> ..."   (see ocaml/hs_driver.ml for the op syntax)
// stdout: "<id> <per-op observations> | <monitor verdicts>"; the part before " | " is compared with the model.
// types : 0 set<uint64>  1 map<uint64,uint64>  2 set<string>  3 map<uint64,unique_ptr<uint64>>  4 map<string,string>
#include "babylon/concurrent/transient_hash_table.h"

#include <algorithm>
#include <cstdio>
#include <cstdlib>
#include <csignal>
#include <cstring>
#include <map>
#include <memory>
#include <set>
#include <sstream>
#include <unistd.h>
#include <string>
#include <vector>

using namespace babylon;

static int g_hash_kind = 0;
static size_t hash_num(uint64_t n) {
  switch (g_hash_kind) {
    case 0: return n;
    case 1: return n % 3;
    case 2: return n * 128;
    case 3: return n % 128;
    case 4: return (n * 2654435761ull) & 0xFFFFFFFFull;
    default: return 0;
  }
}
static std::string skey(uint64_t k) {
  char b[64];
  snprintf(b, sizeof b, "key-with-a-long-heap-allocated-body-%012llu", (unsigned long long)k);
  return b;
}
static uint64_t unskey(const std::string& s) { return strtoull(s.c_str() + s.size() - 12, nullptr, 10); }
struct HNum { size_t operator()(uint64_t k) const noexcept { return hash_num(k); } };
struct HStr { size_t operator()(const std::string& s) const noexcept { return hash_num(unskey(s)); } };

typedef std::pair<uint64_t, uint64_t> KV;

struct T0 {
  using C = ConcurrentTransientHashSet<uint64_t, HNum>;
  static constexpr bool copyable = true;
  static auto emplace(C& c, uint64_t k, uint64_t) { return c.emplace(k); }
  static auto find(C& c, uint64_t k) { return c.find(k); }
  static KV dec(const uint64_t& x) { return {x, 0}; }
};
struct T1 {
  using C = ConcurrentTransientHashMap<uint64_t, uint64_t, HNum>;
  static constexpr bool copyable = true;
  static auto emplace(C& c, uint64_t k, uint64_t v) { return c.emplace(k, v); }
  static auto find(C& c, uint64_t k) { return c.find(k); }
  static KV dec(const std::pair<const uint64_t, uint64_t>& x) { return {x.first, x.second}; }
};
struct T2 {
  using C = ConcurrentTransientHashSet<std::string, HStr>;
  static constexpr bool copyable = true;
  static auto emplace(C& c, uint64_t k, uint64_t) { return c.emplace(skey(k)); }
  static auto find(C& c, uint64_t k) { return c.find(skey(k)); }
  static KV dec(const std::string& x) { return {unskey(x), 0}; }
};
struct T3 {
  using C = ConcurrentTransientHashMap<uint64_t, std::unique_ptr<uint64_t>, HNum>;
  static constexpr bool copyable = false;
  static auto emplace(C& c, uint64_t k, uint64_t v) { return c.emplace(k, std::unique_ptr<uint64_t>(new uint64_t(v))); }
  static auto find(C& c, uint64_t k) { return c.find(k); }
  static KV dec(const std::pair<const uint64_t, std::unique_ptr<uint64_t>>& x) {
    return {x.first, x.second ? *x.second : 999999999ull};
  }
};
struct T4 {
  using C = ConcurrentTransientHashMap<std::string, std::string, HStr>;
  static constexpr bool copyable = true;
  static auto emplace(C& c, uint64_t k, uint64_t v) { return c.emplace(skey(k), skey(v)); }
  static auto find(C& c, uint64_t k) { return c.find(skey(k)); }
  static KV dec(const std::pair<const std::string, std::string>& x) { return {unskey(x.first), unskey(x.second)}; }
};

struct Mon {
  bool size_ok = true, iter_ok = true, find_ok = true, value_ok = true, absent_ok = true, emplace_ok = true;
  int first_bad = -1;
  std::string detail;
  std::string per[6];   // first failure of each monitor: "<name>@<op index>: <detail>"
  void fail(bool& flag, int opi, const std::string& d) {
    static const char* names[6] = {"size", "iter", "find", "value", "absent", "emplace"};
    bool* flags[6] = {&size_ok, &iter_ok, &find_ok, &value_ok, &absent_ok, &emplace_ok};
    for (int i = 0; i < 6; ++i)
      if (flags[i] == &flag && flag) per[i] = std::string(names[i]) + "@" + std::to_string(opi) + ": " + d;
    flag = false;
    if (first_bad < 0) { first_bad = opi; detail = d; }
  }
  std::string all() const {
    std::string r;
    for (int i = 0; i < 6; ++i) if (!per[i].empty()) r += " ;; " + per[i];
    return r;
  }
};

static const size_t RUNAWAY = 2000000;

template <typename T>
static bool collect(typename T::C& c, std::vector<KV>& out) {
  size_t n = 0;
  for (auto it = c.begin(); it != c.end(); ++it) {
    out.push_back(T::dec(*it));
    if (++n > RUNAWAY) return false;
  }
  return true;
}

// the property text checked directly at a quiescent point
template <typename T>
static void audit(typename T::C& c, const std::map<uint64_t, uint64_t>& ref, const std::set<uint64_t>& ghosts,
                  Mon& m, int opi, const char* which) {
  char buf[256];
  if (c.size() != ref.size()) {
    snprintf(buf, sizeof buf, "%s.size()=%zu but %zu distinct keys were inserted since the last clear", which, c.size(), ref.size());
    m.fail(m.size_ok, opi, buf);
  }
  std::vector<KV> got;
  bool fin = collect<T>(c, got);
  std::map<uint64_t, int> seen;
  for (auto& e : got) seen[e.first]++;
  bool ok = fin && got.size() == ref.size();
  for (auto& e : got) {
    auto it = ref.find(e.first);
    if (it == ref.end() || seen[e.first] != 1) ok = false;
    else if (it->second != e.second) {
      snprintf(buf, sizeof buf, "%s: iteration shows key %llu mapped to %llu, first inserted %llu", which,
               (unsigned long long)e.first, (unsigned long long)e.second, (unsigned long long)it->second);
      m.fail(m.value_ok, opi, buf);
    }
  }
  if (!ok) {
    snprintf(buf, sizeof buf, "%s: iteration visits %zu elements (%zu distinct), %zu expected%s", which, got.size(), seen.size(),
             ref.size(), fin ? "" : " (does not terminate)");
    m.fail(m.iter_ok, opi, buf);
  }
  for (auto& kv : ref) {
    auto it = T::find(c, kv.first);
    if (it == c.end()) {
      snprintf(buf, sizeof buf, "%s.find(%llu) fails for an inserted key", which, (unsigned long long)kv.first);
      m.fail(m.find_ok, opi, buf);
    } else if (T::dec(*it) != KV(kv.first, kv.second)) {
      snprintf(buf, sizeof buf, "%s.find(%llu) gives mapped %llu, first inserted %llu", which, (unsigned long long)kv.first,
               (unsigned long long)T::dec(*it).second, (unsigned long long)kv.second);
      m.fail(m.value_ok, opi, buf);
    }
  }
  for (auto g : ghosts) {
    if (ref.count(g)) continue;
    if (T::find(c, g) != c.end()) {
      snprintf(buf, sizeof buf, "%s.find(%llu) succeeds for a key not inserted since the last clear", which, (unsigned long long)g);
      m.fail(m.absent_ok, opi, buf);
    }
  }
}

template <typename T>
static void run_case(const std::string& id, const std::string& ca, const std::string& cb, std::vector<std::string>& ops) {
  using C = typename T::C;
  std::unique_ptr<C> a(ca == "d" ? new C() : new C(strtoull(ca.c_str(), nullptr, 10)));
  std::unique_ptr<C> b(cb == "d" ? new C() : new C(strtoull(cb.c_str(), nullptr, 10)));
  std::map<uint64_t, uint64_t> ra, rb;
  std::set<uint64_t> ghosts;   // every key ever mentioned: must be absent unless in the reference
  Mon m;
  std::string obs;
  char buf[128];
  int opi = 0;
  for (auto& w : ops) {
    bool mutator = true;
    obs += ' ';
    if (w[0] == 'e') {
      unsigned long long k, v;
      sscanf(w.c_str() + 1, "%llu:%llu", &k, &v);
      ghosts.insert(k);
      auto r = T::emplace(*a, k, v);
      bool fresh = !ra.count(k);
      if (fresh) ra[k] = std::is_same<T, T0>::value || std::is_same<T, T2>::value ? 0 : v;
      KV at = r.first != a->end() ? T::dec(*r.first) : KV(~0ull, ~0ull);
      snprintf(buf, sizeof buf, "e%d=%llu:%llu", r.second ? 1 : 0, (unsigned long long)at.first, (unsigned long long)at.second);
      obs += buf;
      if (r.second != fresh || at != KV(k, ra[k])) {
        snprintf(buf, sizeof buf, "emplace(%llu) returns inserted=%d at %llu:%llu, expected inserted=%d at %llu:%llu", k, r.second,
                 (unsigned long long)at.first, (unsigned long long)at.second, fresh, k, (unsigned long long)ra[k]);
        m.fail(m.emplace_ok, opi, buf);
      }
    } else if (w[0] == 'f') {
      unsigned long long k = strtoull(w.c_str() + 1, nullptr, 10);
      ghosts.insert(k);
      auto it = T::find(*a, k);
      mutator = false;
      if (it == a->end()) {
        obs += "f=-";
        if (ra.count(k)) { snprintf(buf, sizeof buf, "find(%llu) fails for an inserted key", k); m.fail(m.find_ok, opi, buf); }
      } else {
        KV at = T::dec(*it);
        snprintf(buf, sizeof buf, "f=%llu:%llu", (unsigned long long)at.first, (unsigned long long)at.second);
        obs += buf;
        if (!ra.count(k)) { snprintf(buf, sizeof buf, "find(%llu) succeeds for a key not inserted since the last clear", k); m.fail(m.absent_ok, opi, buf); }
        else if (at != KV(k, ra[k])) { snprintf(buf, sizeof buf, "find(%llu) gives mapped %llu, first inserted %llu", k, (unsigned long long)at.second, (unsigned long long)ra[k]); m.fail(m.value_ok, opi, buf); }
      }
    } else if (w == "s") {
      mutator = false;
      snprintf(buf, sizeof buf, "s=%zu", a->size());
      obs += buf;
      if (a->size() != ra.size()) {
        snprintf(buf, sizeof buf, "size()=%zu but %zu distinct keys were inserted since the last clear", a->size(), ra.size());
        m.fail(m.size_ok, opi, buf);
      }
    } else if (w == "i") {
      mutator = false;
      std::vector<KV> got;
      bool fin = collect<T>(*a, got);
      std::sort(got.begin(), got.end());
      obs += fin ? "i=" : "i=RUNAWAY";
      if (fin) {
        for (size_t j = 0; j < got.size(); ++j) {
          snprintf(buf, sizeof buf, "%s%llu:%llu", j ? "," : "", (unsigned long long)got[j].first, (unsigned long long)got[j].second);
          obs += buf;
        }
      }
      std::vector<KV> want(ra.begin(), ra.end());
      if (!fin || got != want) {
        snprintf(buf, sizeof buf, "iteration visits %zu elements, %zu expected (each exactly once)", got.size(), want.size());
        m.fail(m.iter_ok, opi, buf);
      }
    } else {
      if (w == "c") { a->clear(); ra.clear(); }
      else if (w[0] == 'r') a->reserve(strtoull(w.c_str() + 1, nullptr, 10));
      else if (w[0] == 'h') a->rehash(strtoull(w.c_str() + 1, nullptr, 10));
      else if (w == "sw") { a->swap(*b); ra.swap(rb); }
      else if (w == "mv") { *a = std::move(*b); b->clear(); ra = rb; rb.clear(); }
      else if (w == "ab" || w == "ba") {
        if constexpr (T::copyable) {
          if (w == "ab") { *b = *a; rb = ra; }
          else { C tmp(*b); a->swap(tmp); ra = rb; }
        } else { obs += "UNSUPPORTED"; }
      }
      snprintf(buf, sizeof buf, "%s:b%zu", w.c_str(), a->bucket_count());
      obs += buf;
    }
    if (mutator) {
      audit<T>(*a, ra, ghosts, m, opi, "A");
      if (w == "ab" || w == "mv" || w == "sw") audit<T>(*b, rb, ghosts, m, opi, "B");
    }
    ++opi;
  }
  audit<T>(*b, rb, ghosts, m, opi, "B");
  printf("%s%s | mon_size=%d mon_iter=%d mon_find=%d mon_value=%d mon_absent=%d mon_emplace=%d first_bad=%d%s\n", id.c_str(), obs.c_str(),
         m.size_ok, m.iter_ok, m.find_ok, m.value_ok, m.absent_ok, m.emplace_ok, m.first_bad, m.all().c_str());
  fflush(stdout);
}

// a case that does not finish within the budget (a probing loop that never ends) kills the process with a marker
// line; chk.run_cases restarts the driver on the remaining cases
static char g_current[64];
static void on_alarm(int) {
  char buf[160];
  int n = snprintf(buf, sizeof buf, "\nCRASH-HANG %s\n", g_current);
  (void)!write(1, buf, n);
  _exit(9);
}

int main() {
  signal(SIGALRM, on_alarm);
  std::string line;
  char* lb = nullptr;
  size_t cap = 0;
  ssize_t n;
  while ((n = getline(&lb, &cap, stdin)) > 0) {
    std::istringstream is(std::string(lb, n));
    std::string id, ca, cb, w;
    int ty, hk;
    if (!(is >> id >> ty >> hk >> ca >> cb)) continue;
    std::vector<std::string> ops;
    while (is >> w) ops.push_back(w);
    g_hash_kind = hk;
    snprintf(g_current, sizeof g_current, "%s", id.c_str());
    alarm(getenv("C18_CASE_SECONDS") ? atoi(getenv("C18_CASE_SECONDS")) : 10);
    switch (ty) {
      case 0: run_case<T0>(id, ca, cb, ops); break;
      case 1: run_case<T1>(id, ca, cb, ops); break;
      case 2: run_case<T2>(id, ca, cb, ops); break;
      case 3: run_case<T3>(id, ca, cb, ops); break;
      default: run_case<T4>(id, ca, cb, ops); break;
    }
  }
  free(lb);
  return 0;
}
