// C19 driver: real babylon counters / thread-locals over histories of thread spawn/exit and instance
// construct/destroy/move.  Logical threads are real std::threads driven in strict hand-off by a director (one
// runs at a time; "exit" joins the thread so its thread_local ThreadId destructor releases the id).  Every case
// runs in a forked child so the function-local statics of babylon (id allocators, storage vectors) start fresh.
// Compiled with -fno-access-control (reads _instance_id / _storage of the counters; never writes them).
//
// stdin :  <case-id> <kind> <op> <op> ...
//   kind  A ConcurrentAdder | S ConcurrentSummer | X ConcurrentMaxer | N ConcurrentMiner
//         C CompactEnumerableThreadLocal<int64_t,1,true> (16 per line) | E EnumerableThreadLocal<ECell> (monitors only)
//         P<kind> concurrent reader-bounds stress (real concurrency, see run_par)
//   ops   sp<t> ex<t> | n<c>@<t> d<c>@<t> mv<c>,<d>@<t> mc<c>,<d>@<t> | a<c>,<v>@<t> r<c>@<t> z<c>@<t>
//         b<c>,<s>,<n>@<t>  ConcurrentSummer << Summary{s, n}  (kind S only; any sign, either half may be zero)
//         fe<c>@<t> fa<c>@<t> (non-const ETL::for_each_alive) fc<c>@<t> (const overload)
// stdout:  <case-id> <one token per op> | <monitor>=0/1 ... [fail=<monitor>@<op#>:<info>]
#include "babylon/concurrent/counter.h"

#include <sys/wait.h>
#include <unistd.h>

#include <chrono>
#include <condition_variable>
#include <memory>
#include <cstdio>
#include <cstring>
#include <functional>
#include <map>
#include <mutex>
#include <set>
#include <sstream>
#include <string>
#include <thread>
#include <vector>

using namespace babylon;
typedef long long ll;

// ---------------------------------------------------------------------------------------------- logical threads
struct Worker {
  std::thread th;
  std::mutex mu;
  std::condition_variable cv;
  std::function<void()> job;
  bool has = false, quit = false, done = false;
  void loop() {
    std::unique_lock<std::mutex> l(mu);
    for (;;) {
      cv.wait(l, [&] { return has || quit; });
      if (has) {
        job();
        has = false;
        done = true;
        cv.notify_all();
      } else if (quit) {
        return;
      }
    }
  }
  void run(std::function<void()> f) {
    std::unique_lock<std::mutex> l(mu);
    job = f;
    has = true;
    done = false;
    cv.notify_all();
    cv.wait(l, [&] { return done; });
  }
  void stop() {
    {
      std::unique_lock<std::mutex> l(mu);
      quit = true;
      cv.notify_all();
    }
    th.join();
  }
};

// ------------------------------------------------------------------------------------------------ kind traits
struct ECell { int64_t v {0}; };

template <class CT>
static const void* compact_local_addr(CT& ct) { return &ct.local(); }

struct TrAdder {
  typedef ConcurrentAdder Obj;
  static constexpr bool movable = true, compact = true;
  static auto& ct(Obj& o) { return o._storage; }
  static void add(Obj& o, ll v) { o << v; }
  static void read(Obj& o, ll& a, ll& b) { a = o.value(); b = 0; }
  static void reset(Obj& o) { o.reset(); }
  static ll cellval(const ssize_t& c) { return c; }
};
struct TrSummer {
  typedef ConcurrentSummer Obj;
  static constexpr bool movable = false, compact = true;
  static auto& ct(Obj& o) { return o._storage; }
  static void add(Obj& o, ll v) { o << (ssize_t)v; }
  static void add2(Obj& o, ll sm, ll nm) { o << ConcurrentSummer::Summary{(ssize_t)sm, (size_t)nm}; }
  static void read(Obj& o, ll& a, ll& b) { auto s = o.value(); a = s.sum; b = (ll)s.num; }
  static void reset(Obj&) {}
  static ll cellval(const ConcurrentSummer::Summary& c) { return c.sum; }
};
template <class M>
struct TrCmp {
  typedef M Obj;
  static constexpr bool movable = false, compact = true;
  static auto& ct(Obj& o) { return o._storage; }
  static void add(Obj& o, ll v) { o << (ssize_t)v; }
  static void read(Obj& o, ll& a, ll& b) { ssize_t x = 0; b = o.value(x) ? 1 : 0; a = o.value(); (void)x; }
  static void reset(Obj& o) { o.reset(); }
  template <class S> static ll cellval(const S& c) { return c.value; }
};
struct TrCompact {
  typedef CompactEnumerableThreadLocal<int64_t, 1, true> Obj;
  static constexpr bool movable = true, compact = true;
  static Obj& ct(Obj& o) { return o; }
  static void add(Obj& o, ll v) { auto& l = o.local(); l = l + v; }
  static void read(Obj& o, ll& a, ll& b) { a = 0; b = 0; o.for_each([&](const int64_t& x) { a += x; }); }
  static void reset(Obj&) {}
  static ll cellval(const int64_t& c) { return c; }
};
struct TrEtl {
  typedef EnumerableThreadLocal<ECell> Obj;
  static constexpr bool movable = true, compact = false;
  static void add(Obj& o, ll v) { o.local().v += v; }
  static void read(Obj& o, ll& a, ll& b) {
    a = 0; b = 0;
    o.for_each([&](ECell* i, ECell* e) { for (; i != e; ++i) a += i->v; });
  }
  static void reset(Obj&) {}
};

// visiting primitives: f(address of the slot) ; values are read by the caller only for validated addresses
template <class Tr> struct Visit {
  typedef typename Tr::Obj Obj;
  static const void* local_addr(Obj& o) { return &Tr::ct(o).local(); }
  static ll iid(Obj& o) { return Tr::ct(o)._instance_id; }
  template <class F> static void each(Obj& o, F f) {
    Tr::ct(o).for_each([&](auto& x) { f((const void*)&x); });
  }
  template <class F> static void alive_nc(Obj& o, F f) {
    Tr::ct(o).for_each_alive([&](auto& x) { f((const void*)&x); });
  }
  template <class F> static void alive_c(Obj& o, F f) {
    auto& c = Tr::ct(o);
    auto off = c._cacheline_offset;
    const auto& etl = *c._storage;
    typedef typename std::remove_reference<decltype(*c._storage)>::type Etl;
    static_cast<const Etl&>(etl).for_each_alive([&](auto* i, auto* e) {
      for (; i != e; ++i) f((const void*)&i->value[off]);
    });
  }
  static ll val(Obj& o, const void* p) {
    typedef typename std::remove_reference<decltype(Tr::ct(o).local())>::type T;
    return Tr::cellval(*reinterpret_cast<const T*>(p));
  }
};
template <> struct Visit<TrEtl> {
  typedef TrEtl::Obj Obj;
  static const void* local_addr(Obj& o) { return &o.local(); }
  static ll iid(Obj& o) { return (ll)o._id; }
  template <class F> static void each(Obj& o, F f) {
    o.for_each([&](ECell* i, ECell* e) { for (; i != e; ++i) f((const void*)i); });
  }
  template <class F> static void alive_nc(Obj& o, F f) {
    o.for_each_alive([&](ECell* i, ECell* e) { for (; i != e; ++i) f((const void*)i); });
  }
  template <class F> static void alive_c(Obj& o, F f) {
    static_cast<const Obj&>(o).for_each_alive([&](const ECell* i, const ECell* e) { for (; i != e; ++i) f((const void*)i); });
  }
  static ll val(Obj&, const void* p) { return reinterpret_cast<const ECell*>(p)->v; }
};

// ------------------------------------------------------------------------------------------------------ a case
struct Soul {
  ll sum = 0, cnt = 0;
  std::vector<ll> period;
  bool touched = false;                        // any contribution since construction
  std::map<int, const void*> addr;             // thread incarnation -> address local() gave
  std::set<const void*> used;
};

static const int NH = 64, NT = 300;

template <class Tr>
static void run_case(const char* id, std::vector<std::string>& ops, bool is_max) {
  typedef typename Tr::Obj Obj;
  typedef Visit<Tr> V;
  static typename std::aligned_storage<sizeof(Obj), alignof(Obj)>::type raw[NH];
  Obj* h[NH];
  Soul* soul[NH];
  for (int i = 0; i < NH; ++i) { h[i] = nullptr; soul[i] = nullptr; }
  Worker* w[NT];
  int inc[NT];
  int tindex[NT];   // slot index of the thread in this world (-1 unknown)
  for (int i = 0; i < NT; ++i) { w[i] = nullptr; inc[i] = 0; tindex[i] = -1; }
  int next_inc = 1;
  std::string out, fails;
  bool m_exact = true, m_fresh = true, m_private = true, m_stable = true, m_allused = true, m_alive = true, m_oob = true;
  auto fail = [&](const char* mon, size_t opi, const std::string& info) {
    if (fails.size() < 600) fails += std::string(" fail=") + mon + "@" + std::to_string(opi) + ":" + info;
  };
  for (size_t opi = 0; opi < ops.size(); ++opi) {
    const std::string& o = ops[opi];
    std::string tok = "?";
    int c = -1, d = -1, t = 0;
    ll v = 0;
    size_t at = o.find('@');
    if (at != std::string::npos) t = atoi(o.c_str() + at + 1);
    auto num_after = [&](size_t pos) { return atoll(o.c_str() + pos); };
    size_t comma = o.find(',');
    if (o.compare(0, 2, "sp") == 0) {
      t = atoi(o.c_str() + 2);
      if (t >= 0 && t < NT && !w[t]) {
        w[t] = new Worker();
        w[t]->th = std::thread([ww = w[t]] { ww->loop(); });
        inc[t] = next_inc++;
        tindex[t] = -1;
        tok = "s";
      } else tok = "-";
    } else if (o.compare(0, 2, "ex") == 0) {
      t = atoi(o.c_str() + 2);
      if (t >= 0 && t < NT && w[t]) { w[t]->stop(); delete w[t]; w[t] = nullptr; inc[t] = 0; tindex[t] = -1; tok = "x"; }
      else tok = "-";
    } else if (t < 0 || t >= NT || !w[t]) {
      tok = "-";
    } else if (o.compare(0, 2, "mv") == 0 || o.compare(0, 2, "mc") == 0) {
      bool ctor = o[1] == 'c';
      c = (int)num_after(2); d = (int)num_after(comma + 1);
      if constexpr (Tr::movable) {
        if (c >= 0 && c < NH && d >= 0 && d < NH && h[d] && (ctor ? !h[c] : (h[c] != nullptr))) {
          ll newid = -1;
          w[t]->run([&] {
            if (ctor) { h[c] = new (&raw[c]) Obj(std::move(*h[d])); } else { *h[c] = std::move(*h[d]); }
            newid = V::iid(*h[d]);
          });
          if (ctor) soul[c] = new Soul();
          std::swap(soul[c], soul[d]);
          tok = ctor ? "mc=" + std::to_string(Tr::compact ? newid : 0) : "m";
        } else tok = "-";
      } else tok = "-";
    } else if (o[0] == 'n') {
      c = (int)num_after(1);
      if (c >= 0 && c < NH && !h[c]) {
        ll iid = -1;
        w[t]->run([&] { h[c] = new (&raw[c]) Obj(); iid = V::iid(*h[c]); });
        soul[c] = new Soul();
        tok = "n=" + std::to_string(Tr::compact ? iid : 0);
      } else tok = "-";
    } else if (o[0] == 'd') {
      c = (int)num_after(1);
      if (c >= 0 && c < NH && h[c]) {
        w[t]->run([&] { h[c]->~Obj(); });
        h[c] = nullptr; delete soul[c]; soul[c] = nullptr;
        tok = "d";
      } else tok = "-";
    } else if (o[0] == 'b') {
      c = (int)num_after(1);
      size_t comma2 = o.find(',', comma + 1);
      ll sm = num_after(comma + 1), nm = comma2 == std::string::npos ? 0 : num_after(comma2 + 1);
      if constexpr (std::is_same<Tr, TrSummer>::value) {
        if (c >= 0 && c < NH && h[c]) {
          const void* p = nullptr;
          w[t]->run([&] { Tr::add2(*h[c], sm, nm); p = V::local_addr(*h[c]); });
          Soul& S = *soul[c];
          S.sum += sm; S.cnt += nm; S.touched = true;
          for (auto& kv : S.addr) {
            if (kv.first == inc[t]) { if (kv.second != p) { m_stable = false; fail("stable", opi, "local() moved"); } }
            else {
              bool live = false;
              for (int u = 0; u < NT; ++u) if (w[u] && inc[u] == kv.first) live = true;
              if (live && kv.second == p) { m_private = false; fail("private", opi, "two live threads share a slot"); }
            }
          }
          S.addr[inc[t]] = p; S.used.insert(p);
          int idx = -1, k = 0;
          V::each(*h[c], [&](const void* q) { if (q == p) idx = k; ++k; });
          if (idx < 0) { m_allused = false; fail("allused", opi, "for_each misses the slot local() just returned"); }
          if (tindex[t] >= 0 && idx >= 0 && tindex[t] != idx) { m_stable = false; fail("stable", opi, "thread index changed"); }
          if (idx >= 0) tindex[t] = idx;
          tok = "b=" + std::to_string(idx);
        } else tok = "-";
      } else tok = "-";
    } else if (o[0] == 'a') {
      c = (int)num_after(1); v = num_after(comma + 1);
      if (c >= 0 && c < NH && h[c]) {
        const void* p = nullptr;
        w[t]->run([&] { Tr::add(*h[c], v); p = V::local_addr(*h[c]); });
        Soul& S = *soul[c];
        S.sum += v; S.cnt += 1; S.period.push_back(v); S.touched = true;
        // privacy / stability of local()
        for (auto& kv : S.addr) {
          if (kv.first == inc[t]) { if (kv.second != p) { m_stable = false; fail("stable", opi, "local() moved"); } }
          else {
            bool live = false;
            for (int u = 0; u < NT; ++u) if (w[u] && inc[u] == kv.first) live = true;
            if (live && kv.second == p) { m_private = false; fail("private", opi, "two live threads share a slot"); }
          }
        }
        S.addr[inc[t]] = p; S.used.insert(p);
        // slot index = position among the slots for_each visits
        int idx = -1, k = 0;
        V::each(*h[c], [&](const void* q) { if (q == p) idx = k; ++k; });
        if (idx < 0) { m_allused = false; fail("allused", opi, "for_each misses the slot local() just returned"); }
        if (tindex[t] >= 0 && idx >= 0 && tindex[t] != idx) { m_stable = false; fail("stable", opi, "thread index changed"); }
        if (idx >= 0) tindex[t] = idx;
        tok = "a=" + std::to_string(idx);
      } else tok = "-";
    } else if (o[0] == 'r') {
      c = (int)num_after(1);
      if (c >= 0 && c < NH && h[c]) {
        ll a = 0, b = 0;
        w[t]->run([&] { Tr::read(*h[c], a, b); });
        Soul& S = *soul[c];
        bool ok;
        std::string want;
        if (is_max || std::is_same<Tr, TrCmp<ConcurrentMiner>>::value) {
          bool mx = std::is_same<Tr, TrCmp<ConcurrentMaxer>>::value;
          if (S.period.empty()) { ok = (b == 0 && a == 0); want = "none"; }
          else {
            ll e = S.period[0];
            for (ll x : S.period) e = mx ? std::max(e, x) : std::min(e, x);
            ok = (b == 1 && a == e); want = std::to_string(e);
          }
        } else if (std::is_same<Tr, TrSummer>::value) {
          ok = (a == S.sum && b == S.cnt); want = std::to_string(S.sum) + "," + std::to_string(S.cnt);
        } else { ok = (a == S.sum); want = std::to_string(S.sum); }
        if (!ok) {
          if (!S.touched) { m_fresh = false; fail("fresh", opi, "new counter reads " + std::to_string(a) + "," + std::to_string(b)); }
          else { m_exact = false; fail("exact", opi, "read " + std::to_string(a) + "," + std::to_string(b) + " want " + want); }
        }
        tok = "r=" + std::to_string(a) + "," + std::to_string(b);
      } else tok = "-";
    } else if (o[0] == 'z') {
      c = (int)num_after(1);
      if (c >= 0 && c < NH && h[c]) {
        w[t]->run([&] { Tr::reset(*h[c]); });
        Soul& S = *soul[c];
        if (std::is_same<Tr, TrAdder>::value) { S.sum = 0; S.cnt = 0; }
        if (std::is_same<Tr, TrCmp<ConcurrentMaxer>>::value || std::is_same<Tr, TrCmp<ConcurrentMiner>>::value) S.period.clear();
        tok = "z";
      } else tok = "-";
    } else if (o[0] == 'f') {
      c = (int)num_after(2);
      if (c >= 0 && c < NH && h[c]) {
        std::vector<const void*> all, seen;
        w[t]->run([&] {
          V::each(*h[c], [&](const void* q) { all.push_back(q); });
          if (o[1] == 'a') V::alive_nc(*h[c], [&](const void* q) { seen.push_back(q); });
          if (o[1] == 'c') V::alive_c(*h[c], [&](const void* q) { seen.push_back(q); });
        });
        Soul& S = *soul[c];
        std::map<const void*, int> index;
        for (size_t i = 0; i < all.size(); ++i) index[all[i]] = (int)i;
        if (o[1] == 'e') {
          for (const void* q : S.used) if (!index.count(q)) { m_allused = false; fail("allused", opi, "a used slot is not visited"); break; }
          tok = "fe=";
          for (size_t i = 0; i < all.size(); ++i) tok += (i ? "," : "") + std::to_string(V::val(*h[c], all[i]));
        } else {
          bool oob = false;
          std::set<int> got, want;
          for (const void* q : seen) { if (!index.count(q)) oob = true; else got.insert(index[q]); }
          for (int u = 0; u < NT; ++u) if (w[u] && tindex[u] >= 0 && tindex[u] < (int)all.size()) want.insert(tindex[u]);
          if (oob) { m_oob = false; fail("oob", opi, std::string(o[1] == 'a' ? "non-const" : "const") + " for_each_alive visits memory that is not a slot of this instance"); }
          else if (got != want || got.size() != seen.size()) { m_alive = false; fail("alive", opi, "visited slots are not exactly those of live threads"); }
          tok = std::string("f") + o[1] + "=";
          if (oob) tok += "OOB";
          else for (size_t i = 0; i < seen.size(); ++i) tok += (i ? "," : "") + std::to_string(V::val(*h[c], seen[i]));
        }
      } else tok = "-";
    }
    out += " " + tok;
  }
  printf("%s%s | exact=%d fresh=%d private=%d stable=%d allused=%d alive=%d oob=%d%s\n", id, out.c_str(), m_exact, m_fresh,
         m_private, m_stable, m_allused, m_alive, m_oob, fails.c_str());
  fflush(stdout);
}

// ---------------------------------------------------------------------- concurrent reader bounds (real threads)
// P<kind> <nthreads> <adds-per-thread> <reads> <churn> : writers add non-negative values while a reader reads; every read
// must lie between the contributions completed before it started and those started before it finished.  With
// churn=1 writers are short-lived threads respawned in rounds (slot reuse while the reader runs).
template <class Tr>
static void run_par(const char* id, int nthreads, int adds, int reads, int churn, bool is_cmp, bool is_max) {
  typedef typename Tr::Obj Obj;
  Obj* obj = new Obj();
  Obj* other = new Obj();   // a neighbour sharing cache lines, must stay untouched by obj's traffic
  std::atomic<ll> started_sum {0}, done_sum {0}, started_cnt {0}, done_cnt {0};
  std::atomic<ll> done_ext {is_max ? LLONG_MIN : LLONG_MAX}, started_ext {is_max ? LLONG_MIN : LLONG_MAX};
  std::atomic<int> running {0};
  std::atomic<bool> go {false};
  bool ok_lo = true, ok_hi = true, ok_final = true, ok_other = true;
  std::string info;
  auto body = [&](int seed, int n) {
    while (!go.load()) std::this_thread::yield();
    unsigned x = (unsigned)seed * 2654435761u + 1;
    for (int i = 0; i < n; ++i) {
      x = x * 1664525u + 1013904223u;
      ll v = is_cmp ? (ll)(x >> 8) % 100000 * (is_max ? 1 : -1) : (ll)((x >> 16) % 7);
      if (is_cmp) {
        ll cur = started_ext.load();
        while ((is_max ? v > cur : v < cur) && !started_ext.compare_exchange_weak(cur, v)) {}
      } else { started_sum.fetch_add(v); started_cnt.fetch_add(1); }
      if constexpr (std::is_same<Tr, TrSummer>::value) { if (i % 3 == 2) Tr::add2(*obj, v, 1); else Tr::add(*obj, v); }
      else Tr::add(*obj, v);
      if (is_cmp) {
        ll cur = done_ext.load();
        while ((is_max ? v > cur : v < cur) && !done_ext.compare_exchange_weak(cur, v)) {}
      } else { done_sum.fetch_add(v); done_cnt.fetch_add(1); }
    }
  };
  std::thread reader([&] {
    while (!go.load()) std::this_thread::yield();
    for (int i = 0; i < reads; ++i) {
      ll lo_s = done_sum.load(), lo_c = done_cnt.load(), lo_e = done_ext.load();
      ll a = 0, b = 0;
      std::atomic_thread_fence(std::memory_order_seq_cst);
      Tr::read(*obj, a, b);
      std::atomic_thread_fence(std::memory_order_seq_cst);
      ll hi_s = started_sum.load(), hi_c = started_cnt.load(), hi_e = started_ext.load();
      if (is_cmp) {
        // extreme seen must be at least as extreme as every completed value and no more than any started one
        bool lo_none = (lo_e == (is_max ? LLONG_MIN : LLONG_MAX));
        if (!lo_none && !(b == 1 && (is_max ? a >= lo_e : a <= lo_e))) { ok_lo = false; info = "read " + std::to_string(a) + " completed extreme " + std::to_string(lo_e); }
        if (b == 1 && (is_max ? a > hi_e : a < hi_e)) { ok_hi = false; info = "read " + std::to_string(a) + " started extreme " + std::to_string(hi_e); }
      } else {
        if (a < lo_s || (std::is_same<Tr, TrSummer>::value && b < lo_c)) { ok_lo = false; info = "read " + std::to_string(a) + "," + std::to_string(b) + " below completed " + std::to_string(lo_s) + "," + std::to_string(lo_c); }
        if (a > hi_s || (std::is_same<Tr, TrSummer>::value && b > hi_c)) { ok_hi = false; info = "read " + std::to_string(a) + "," + std::to_string(b) + " above started " + std::to_string(hi_s) + "," + std::to_string(hi_c); }
      }
      if (running.load() == 0 && i > reads / 2) break;
    }
  });
  running = 1;
  go = true;
  if (!churn) {
    std::vector<std::thread> ws;
    for (int t = 0; t < nthreads; ++t) ws.emplace_back(body, t + 1, adds);
    for (auto& x : ws) x.join();
  } else {
    int rounds = 8;
    for (int r = 0; r < rounds; ++r) {
      std::vector<std::thread> ws;
      for (int t = 0; t < nthreads; ++t) ws.emplace_back(body, r * 100 + t + 1, adds / rounds + 1);
      for (auto& x : ws) x.join();
    }
  }
  running = 0;
  reader.join();
  ll a = 0, b = 0;
  Tr::read(*obj, a, b);
  if (is_cmp) { if (!(b == 1 && a == done_ext.load())) { ok_final = false; info = "final " + std::to_string(a) + " want " + std::to_string(done_ext.load()); } }
  else if (a != done_sum.load() || (std::is_same<Tr, TrSummer>::value && b != done_cnt.load())) { ok_final = false; info = "final " + std::to_string(a) + "," + std::to_string(b) + " want " + std::to_string(done_sum.load()) + "," + std::to_string(done_cnt.load()); }
  ll oa = 0, ob = 0;
  Tr::read(*other, oa, ob);
  if (oa != 0 || ob != 0) { ok_other = false; info = "neighbour counter reads " + std::to_string(oa); }
  printf("%s par | lower=%d upper=%d final=%d neighbour=%d%s%s\n", id, ok_lo, ok_hi, ok_final, ok_other, info.empty() ? "" : " fail=par:",
         info.c_str());
  fflush(stdout);
  delete other;
  delete obj;
}

// PR <helpers> <batch> <budget-ms> : real-thread stress of destruction racing with construction.  <helpers> parked threads
// own thread slots (longer zeroing sweep); a builder thread (highest slot) constructs <batch> adders per round and counts
// 1 into each while the main thread destroys one unrelated adder somewhere inside that burst.  At the quiescent point
// every adder of the round must read exactly 1 (a newly constructed counter owns its column exclusively).
static void run_recycle(const char* id, int nhelpers, int batch, int budget_ms) {
  ConcurrentAdder warm;
  std::atomic<int> up {0};
  std::atomic<bool> quit {false};
  std::vector<std::thread> helpers;
  for (int i = 0; i < nhelpers; ++i)
    helpers.emplace_back([&] {
      warm << 1;
      up.fetch_add(1);
      while (!quit.load()) std::this_thread::sleep_for(std::chrono::milliseconds(2));
    });
  while (up.load() != nhelpers) std::this_thread::yield();
  std::atomic<size_t> round_go {0}, built {0}, destroyed {0}, checked {0};
  std::atomic<bool> stop {false};
  std::atomic<size_t> bad {0};
  std::atomic<ll> bad_value {0};
  std::thread builder([&] {
    warm << 1;
    std::vector<std::unique_ptr<ConcurrentAdder>> adders;
    for (size_t round = 1;; ++round) {
      while (round_go.load() != round) if (stop.load()) return;
      for (int i = 0; i < batch; ++i) { adders.emplace_back(new ConcurrentAdder); *adders.back() << 1; }
      built.store(round);
      while (destroyed.load() != round) {}
      for (auto& a : adders) { auto v = a->value(); if (v != 1) { bad.fetch_add(1); bad_value.store(v); } }
      adders.clear();
      checked.store(round);
    }
  });
  auto deadline = std::chrono::steady_clock::now() + std::chrono::milliseconds(budget_ms);
  size_t round = 0;
  unsigned spin = 1;
  while (bad.load() == 0 && std::chrono::steady_clock::now() < deadline) {
    ++round;
    auto* victim = new ConcurrentAdder;
    *victim << 5;
    round_go.store(round);
    spin = spin * 1103515245u + 12345u;
    for (unsigned i = 0, n = (spin >> 16) % 4000; i < n; ++i) __asm__ volatile("" ::: "memory");
    delete victim;
    destroyed.store(round);
    while (checked.load() != round) {}
  }
  stop.store(true);
  builder.join();
  quit.store(true);
  for (auto& h : helpers) h.join();
  printf("%s par rounds=%zu | recycle=%d%s%s\n", id, round, bad.load() == 0, bad.load() ? " fail=par:an adder constructed while another was being destroyed lost its contribution, reads " : "",
         bad.load() ? std::to_string(bad_value.load()).c_str() : "");
  fflush(stdout);
}

static void dispatch(const char* id, const std::string& kind, std::vector<std::string>& ops) {
  if (kind == "PR" && ops.size() >= 3) { run_recycle(id, atoi(ops[0].c_str()), atoi(ops[1].c_str()), atoi(ops[2].c_str())); return; }
  if (kind[0] == 'P' && kind.size() == 2 && ops.size() >= 4) {
    int n = atoi(ops[0].c_str()), adds = atoi(ops[1].c_str()), reads = atoi(ops[2].c_str()), churn = atoi(ops[3].c_str());
    switch (kind[1]) {
      case 'A': run_par<TrAdder>(id, n, adds, reads, churn, false, false); break;
      case 'S': run_par<TrSummer>(id, n, adds, reads, churn, false, false); break;
      case 'X': run_par<TrCmp<ConcurrentMaxer>>(id, n, adds, reads, churn, true, true); break;
      case 'N': run_par<TrCmp<ConcurrentMiner>>(id, n, adds, reads, churn, true, false); break;
      default: printf("%s badkind\n", id);
    }
    return;
  }
  switch (kind[0]) {
    case 'A': run_case<TrAdder>(id, ops, false); break;
    case 'S': run_case<TrSummer>(id, ops, false); break;
    case 'X': run_case<TrCmp<ConcurrentMaxer>>(id, ops, true); break;
    case 'N': run_case<TrCmp<ConcurrentMiner>>(id, ops, false); break;
    case 'C': run_case<TrCompact>(id, ops, false); break;
    case 'E': run_case<TrEtl>(id, ops, false); break;
    default: printf("%s badkind\n", id);
  }
}

int main(int argc, char** argv) {
  bool nofork = argc > 1 && strcmp(argv[1], "--nofork") == 0;   // for ASan/debugging of a single case
  static char line[1 << 20];
  while (fgets(line, sizeof line, stdin)) {
    std::stringstream ss(line);
    std::string id, kind, o;
    if (!(ss >> id >> kind)) continue;
    std::vector<std::string> ops;
    while (ss >> o) ops.push_back(o);
    if (nofork) { dispatch(id.c_str(), kind, ops); continue; }
    fflush(stdout);
    pid_t pid = fork();
    if (pid == 0) {
      dispatch(id.c_str(), kind, ops);
      fflush(stdout);
      _exit(0);
    }
    int status = 0;
    waitpid(pid, &status, 0);
    if (!(WIFEXITED(status) && WEXITSTATUS(status) == 0)) {
      printf("%s CRASH status=%d sig=%d\n", id.c_str(), status, WIFSIGNALED(status) ? WTERMSIG(status) : 0);
      fflush(stdout);
    }
  }
  return 0;
}
