// C06 driver: real ExclusiveMonotonicBufferResource / SharedMonotonicBufferResource / SwissMemoryResource over a
// recording PageAllocator and a recording upstream std::pmr::memory_resource that hand out memory from one arena
// (deterministic nominal addresses).  Compiled with -fno-access-control so the monitors can walk the intrusive
// bookkeeping arrays of the real object.
//
// stdin, one case per line:
//   <id> X <page_size> <shuffle> <op> ...   ops: A:<bytes>:<align>  G:<ptr token>:<fn 1|2>  C:<block k>:<off>  R  M  K
//   <id> S|W <page_size> <threads> <allocs per thread> <seed>       (shared / swiss resource, real threads)
// stdout: "<id> <segment> #<o1>,<o2>,<ou>,<cptr> ; ... | mon_x=0/1 ... detail=<text>"
#include "babylon/reusable/memory_resource.h"

#include <sys/mman.h>

#include <algorithm>
#include <atomic>
#include <cstdio>
#include <cstdlib>
#include <cstring>
#include <map>
#include <mutex>
#include <new>
#include <set>
#include <sstream>
#include <string>
#include <thread>
#include <vector>

using namespace babylon;
using Excl = ExclusiveMonotonicBufferResource;

// ------------------------------------------------------------------ arena
static const long long NOMINAL = 1ll << 40;
static const size_t PAGE_REGION = 32ull << 20, UP_OFFSET = 64ull << 20, ARENA = 1024ull << 20;
static char* g_base = nullptr;
static bool in_arena(const void* p) { return (const char*)p >= g_base && (const char*)p < g_base + ARENA; }
static long long nom(const void* p) {
  if (p == nullptr) return 0;
  if (!in_arena(p)) return -2;
  return NOMINAL + ((const char*)p - g_base);
}

// ------------------------------------------------------------------ event log
static std::mutex g_mu;
static std::atomic<long long> g_rel_frees {0};        // page / upstream deallocations since the current release() began
static std::vector<std::string> g_events;   // events of the current op (X cases)
static bool g_bad_free = false, g_bad_upfree = false;             // page/upstream returned twice, unknown, or with wrong size/alignment
static bool g_wrong_upstream = false;       // a block of the recording upstream reached operator delete
static std::map<std::string, std::string> g_details;   // monitor name -> first failure text
static std::string g_detail;
static void detail(const std::string& key, const std::string& s) { if (!g_details.count(key)) g_details[key] = s; }
static void detail(const std::string& s) { detail("pages", s); }
static void finish_detail() {
  g_detail.clear();
  for (auto& kv : g_details) g_detail += (g_detail.empty() ? "" : " // ") + ("[" + kv.first + "] " + kv.second);
  for (auto& c : g_detail) if (c == '|' || c == ';' || c == '\n') c = '/';
}
static void ev(const std::string& s) { g_events.push_back(s); }
static std::string num(long long v) { return std::to_string(v); }

// global operator new/delete: malloc based; a pointer of the arena arriving here was sent to the default
// new_delete_resource instead of the upstream it came from.
static void arena_delete(void* p, size_t bytes, size_t align) {
  std::lock_guard<std::mutex> l(g_mu);
  g_wrong_upstream = true;
  ev("uf0:" + num(nom(p)) + ":" + num((long long)bytes) + ":" + num((long long)align));
  detail("up", "block " + num(nom(p)) + " obtained from the configured upstream was deallocated through the default new_delete_resource");
}
void* operator new(size_t n) { void* p = malloc(n ? n : 1); if (!p) abort(); return p; }
void* operator new[](size_t n) { return operator new(n); }
void* operator new(size_t n, std::align_val_t a) {
  void* p = nullptr;
  size_t al = std::max((size_t)a, sizeof(void*));
  if (posix_memalign(&p, al, n ? n : 1) != 0) abort();
  return p;
}
void* operator new[](size_t n, std::align_val_t a) { return operator new(n, a); }
void operator delete(void* p) noexcept { if (in_arena(p)) arena_delete(p, 0, 0); else free(p); }
void operator delete[](void* p) noexcept { operator delete(p); }
void operator delete(void* p, size_t n) noexcept { if (in_arena(p)) arena_delete(p, n, 0); else free(p); }
void operator delete[](void* p, size_t n) noexcept { operator delete(p, n); }
void operator delete(void* p, std::align_val_t a) noexcept { if (in_arena(p)) arena_delete(p, 0, (size_t)a); else free(p); }
void operator delete[](void* p, std::align_val_t a) noexcept { operator delete(p, a); }
void operator delete(void* p, size_t n, std::align_val_t a) noexcept { if (in_arena(p)) arena_delete(p, n, (size_t)a); else free(p); }
void operator delete[](void* p, size_t n, std::align_val_t a) noexcept { operator delete(p, n, a); }

// ------------------------------------------------------------------ recording page allocator
struct RecPages : public PageAllocator {
  size_t base_off {0};   // offset of this allocator's page region in the arena
  int tag {1};
  size_t psize {4096};
  size_t shuffle {0};
  size_t count {0};
  std::map<char*, int> live;                // page -> 1 while lent out
  std::vector<char*> all;                   // every page handed out in this case
  std::map<char*, int> freed;               // times returned
  std::vector<long long> last;              // pages handed out during the current op
  bool threadsafe {false};
  size_t page_size() const noexcept override { return psize; }
  using PageAllocator::allocate;
  using PageAllocator::deallocate;
  char* slot(size_t k) const {
    size_t nslots = 2048;
    size_t s;
    if (shuffle == 0) s = k % nslots;
    else if (shuffle == 1) s = (nslots - 1 - k % nslots);
    else s = (k * (2 * shuffle + 1) + shuffle) % nslots;
    return g_base + base_off + s * psize;
  }
  void allocate(void** pages, size_t n) noexcept override {
    std::lock_guard<std::mutex> l(g_mu);
    for (size_t i = 0; i < n; ++i) {
      char* p = slot(count++);
      if (count > 2048) { detail("page arena exhausted"); abort(); }
      memset(p, 0xEE, psize);
      live[p] = 1;
      all.push_back(p);
      pages[i] = p;
      last.push_back(nom(p));
      if (!threadsafe) ev("pa" + num(nom(p)));
    }
  }
  void deallocate(void** pages, size_t n) noexcept override {
    std::lock_guard<std::mutex> l(g_mu);
    g_rel_frees.fetch_add(1);
    std::string s = "pf";
    for (size_t i = 0; i < n; ++i) {
      char* p = (char*)pages[i];
      s += (i ? "+" : "") + num(nom(p));
      auto it = live.find(p);
      if (it == live.end()) {
        g_bad_free = true;
        detail("page " + num(nom(p)) + " returned to page allocator #" + num(tag) + " which has not lent it out (double free, wild free or another allocator's page)");
      } else {
        live.erase(it);
        memset(p, 0xDD, psize);
      }
      freed[p]++;
    }
    if (!threadsafe) ev(s);
  }
  void reset() { count = 0; live.clear(); all.clear(); freed.clear(); last.clear(); }
};

// ------------------------------------------------------------------ recording upstream
struct RecUp : public std::pmr::memory_resource {
  struct Blk { size_t bytes, align; };
  std::map<char*, Blk> live;
  std::vector<std::pair<char*, Blk>> all;
  size_t cur {0};
  size_t up_off {UP_OFFSET}, up_limit {UP_OFFSET + (480ull << 20)};
  int tag {1};
  std::vector<long long> last;
  bool threadsafe {false};
  void* do_allocate(size_t bytes, size_t align) override {
    std::lock_guard<std::mutex> l(g_mu);
    size_t a = std::max<size_t>(align, 1);
    size_t off = (up_off + cur + a - 1) / a * a;     // g_base is 2^26 aligned
    char* p = g_base + off;
    cur = off - up_off + bytes + 64;
    if (up_off + cur >= up_limit) { detail("upstream arena exhausted"); abort(); }
    memset(p, 0xEE, bytes);
    live[p] = Blk {bytes, align};
    all.push_back({p, Blk {bytes, align}});
    last.push_back(nom(p));
    if (!threadsafe) ev("ua1:" + num(nom(p)) + ":" + num((long long)bytes) + ":" + num((long long)align));
    return p;
  }
  void do_deallocate(void* ptr, size_t bytes, size_t align) override {
    std::lock_guard<std::mutex> l(g_mu);
    g_rel_frees.fetch_add(1);
    char* p = (char*)ptr;
    if (!threadsafe) ev("uf1:" + num(nom(p)) + ":" + num((long long)bytes) + ":" + num((long long)align));
    auto it = live.find(p);
    if (it == live.end()) {
      g_bad_upfree = true;
      detail("up", "block " + num(nom(p)) + " returned to upstream #" + num(tag) + " which has not lent it out (double free, wild free or another upstream's block)");
      return;
    }
    if (it->second.bytes != bytes || it->second.align != align) {
      g_bad_upfree = true;
      detail("up", "oversize block obtained with (bytes=" + num((long long)it->second.bytes) + ", alignment=" +
             num((long long)it->second.align) + ") returned upstream with (bytes=" + num((long long)bytes) +
             ", alignment=" + num((long long)align) + ")");
    }
    memset(p, 0xDD, it->second.bytes);
    live.erase(it);
  }
  bool do_is_equal(const std::pmr::memory_resource& o) const noexcept override { return this == &o; }
  void reset() { live.clear(); all.clear(); cur = 0; last.clear(); }
};

static RecPages g_pages;
static RecUp g_up;
static RecPages g_pages2;   // second, independent pair for the two-resource cases
static RecUp g_up2;

// ------------------------------------------------------------------ destructors
static std::vector<std::pair<long long, int>> g_dtor_calls;   // since last release
static std::atomic<long long> g_dtor_count {0};
static std::atomic<long long> g_dtor_after_free {0};  // destructor calls that saw memory already returned
static std::atomic<long long> g_watch_corrupt {0};    // watcher destructors that found the peer's block scribbled
static void fn1(void* p) { ev("dt" + num((long long)(uintptr_t)p) + ":1"); g_dtor_calls.push_back({(long long)(uintptr_t)p, 1}); }
static void fn2(void* p) { ev("dt" + num((long long)(uintptr_t)p) + ":2"); g_dtor_calls.push_back({(long long)(uintptr_t)p, 2}); }
static void fn_count(void* p) {
  ((std::atomic<int>*)p)->fetch_add(1);
  g_dtor_count.fetch_add(1);
  if (g_rel_frees.load() != 0) g_dtor_after_free.fetch_add(1);
}

// ------------------------------------------------------------------ monitors
struct Block { char* p; size_t bytes, align; int id; };
static unsigned char pat(int id, size_t i) { return (unsigned char)(id * 131 + i * 7 + 1); }
static void fill(const Block& b) { for (size_t i = 0; i < b.bytes; ++i) b.p[i] = (char)pat(b.id, i); }
static bool intact(const Block& b) {
  for (size_t i = 0; i < b.bytes; ++i) if ((unsigned char)b.p[i] != pat(b.id, i)) return false;
  return true;
}
static bool overlap(const char* a, size_t an, const char* b, size_t bn) {
  return an > 0 && bn > 0 && a < b + bn && b < a + an;
}
struct Mon {
  bool align {true}, owned {true}, disjoint {true}, book {true}, stable {true}, dtor {true}, pages {true}, up {true},
       zero {true}, contains {true}, reuse {true};
};

static bool owned_by(const Block& b) {
  if (b.bytes == 0) return true;
  if (!in_arena(b.p)) return false;
  for (RecPages* rp : {&g_pages, &g_pages2})
    for (auto& kv : rp->live) if (b.p >= kv.first && b.p + b.bytes <= kv.first + rp->psize) return true;
  for (RecUp* ru : {&g_up, &g_up2})
    for (auto& kv : ru->live) if (b.p >= kv.first && b.p + b.bytes <= kv.first + kv.second.bytes) return true;
  return false;
}

// intrusive arrays of the real object: (address, size)
static bool walk_books(Excl& r, std::vector<std::pair<char*, size_t>>& out) {
  int guard = 0;
  for (auto a = r._last_page_array; a != nullptr; a = a->next) {
    if (!in_arena(a) || ++guard > 4096) return false;
    out.push_back({(char*)a, sizeof(Excl::PageArray)});
  }
  for (auto a = r._last_oversize_page_array; a != nullptr; a = a->next) {
    if (!in_arena(a) || ++guard > 4096) return false;
    out.push_back({(char*)a, sizeof(Excl::OversizePageArray)});
  }
  for (auto a = r._last_destroy_task_array; a != nullptr; a = a->next) {
    if (!in_arena(a) || ++guard > 4096) return false;
    out.push_back({(char*)a, sizeof(Excl::DestroyTaskArray)});
  }
  return true;
}

static std::string chain_str(Excl& r, int which) {
  std::string s = "[";
  int guard = 0;
  bool first = true;
  auto add = [&](void* a) { s += (first ? "" : ",") + num(nom(a)); first = false; };
  if (which == 0) for (auto a = r._last_page_array; a && in_arena(a) && ++guard < 4096; a = a->next) add(a);
  if (which == 1) for (auto a = r._last_oversize_page_array; a && in_arena(a) && ++guard < 4096; a = a->next) add(a);
  if (which == 2) for (auto a = r._last_destroy_task_array; a && in_arena(a) && ++guard < 4096; a = a->next) add(a);
  return s + "]";
}

static std::vector<std::string> split(const std::string& s, char c) {
  std::vector<std::string> out;
  std::string cur;
  for (char ch : s) { if (ch == c) { out.push_back(cur); cur.clear(); } else cur += ch; }
  out.push_back(cur);
  return out;
}

// ------------------------------------------------------------------ exclusive case
static void run_exclusive(const std::string& id, std::istringstream& in) {
  size_t P, shuffle;
  in >> P >> shuffle;
  g_pages.reset(); g_up.reset();
  g_pages.psize = P; g_pages.shuffle = shuffle; g_pages.threadsafe = false; g_up.threadsafe = false;
  g_bad_free = false; g_bad_upfree = false; g_wrong_upstream = false; g_details.clear(); g_detail.clear(); g_dtor_calls.clear();
  Mon m;
  Excl* cur = new Excl;
  cur->set_page_allocator(g_pages);
  cur->set_upstream(g_up);
  std::vector<Block> live;                              // blocks since last release
  std::vector<Block> ever;
  std::vector<std::pair<long long, int>> registered;    // since last release
  std::string out = id;
  std::string op;
  bool first = true;
  int nblocks = 0;
  while (in >> op) {
    g_events.clear(); g_pages.last.clear(); g_up.last.clear();
    auto f = split(op, ':');
    long long res = 0, cptr = 0;
    bool released = false;
    if (f[0] == "A") {
      size_t bytes = strtoull(f[1].c_str(), 0, 10), align = strtoull(f[2].c_str(), 0, 10);
      char* p = (char*)cur->allocate(bytes, align);
      res = nom(p);
      Block b {p, bytes, align, nblocks++};
      if (align && ((uintptr_t)p % align) != 0) { m.align = false; detail("align", "allocate(" + f[1] + "," + f[2] + ") returned " + num(res) + " which is not aligned"); }
      if (!owned_by(b)) { m.owned = false; detail("owned", "allocate(" + f[1] + "," + f[2] + ") returned " + num(res) + " which is not inside a page or oversize block the resource holds"); }
      for (auto& o : live) if (overlap(o.p, o.bytes, b.p, b.bytes)) {
        m.disjoint = false;
        detail("disjoint", "allocate(" + f[1] + "," + f[2] + ") = " + num(res) + " overlaps live block " + num(nom(o.p)) + "+" + num((long long)o.bytes));
      }
      if (owned_by(b)) fill(b);
      live.push_back(b); ever.push_back(b);
    } else if (f[0] == "G") {
      long long tok = atoll(f[1].c_str());
      int fn = atoi(f[2].c_str());
      cur->register_destructor((void*)(uintptr_t)tok, fn == 1 ? fn1 : fn2);
      registered.push_back({tok, fn});
    } else if (f[0] == "C") {
      size_t k = strtoull(f[1].c_str(), 0, 10);
      long long off = atoll(f[2].c_str());
      char* p = ever.empty() ? g_base + off : ever[k % ever.size()].p + off;
      if (!in_arena(p)) p = g_base;
      cptr = nom(p);
      res = cur->contains(p) ? 1 : 0;
    } else if (f[0] == "R") {
      g_dtor_calls.clear();
      size_t before_events = g_events.size();
      std::set<char*> pages_before;
      for (auto& kv : g_pages.live) pages_before.insert(kv.first);
      for (auto& b : live) if (owned_by(b) && !intact(b)) { m.stable = false; detail("stable", "block " + num(nom(b.p)) + "+" + num((long long)b.bytes) + " lost its contents before release"); }
      cur->release();
      released = true;
      // destructors: each exactly once, LIFO, all before the first page / upstream free
      std::vector<std::pair<long long, int>> want(registered.rbegin(), registered.rend());
      if (g_dtor_calls != want) {
        m.dtor = false;
        detail("dtor", "release ran " + num((long long)g_dtor_calls.size()) + " destructor calls for " + num((long long)want.size()) + " registrations (or not in reverse order)");
      }
      bool seen_free = false;
      for (size_t i = before_events; i < g_events.size(); ++i) {
        if (g_events[i].compare(0, 2, "pf") == 0 || g_events[i].compare(0, 2, "uf") == 0) seen_free = true;
        if (g_events[i].compare(0, 2, "dt") == 0 && seen_free) { m.dtor = false; detail("dtor", "a destructor ran after memory was already returned"); }
      }
      if (!g_pages.live.empty()) { m.pages = false; detail("pages", num((long long)g_pages.live.size()) + " page(s) not returned to the page allocator by release, e.g. " + num(nom(g_pages.live.begin()->first))); }
      if (!g_up.live.empty()) { m.up = false; detail("up", num((long long)g_up.live.size()) + " oversize block(s) not returned upstream by release, e.g. " + num(nom(g_up.live.begin()->first))); }
      if (cur->space_used() != 0 || cur->space_allocated() != 0) { m.zero = false; detail("zero", "accounting not zero after release"); }
      for (auto& b : live) if (b.bytes && in_arena(b.p) && cur->contains(b.p)) { m.zero = false; detail("zero", "contains() still true for a released block"); }
      g_pages.live.clear(); g_up.live.clear();   // leaked regions must not mask later ownership checks
      live.clear(); registered.clear();
    } else if (f[0] == "M") {
      Excl* t = new Excl;
      t->set_page_allocator(g_pages);
      t->set_upstream(g_up);
      *t = std::move(*cur);
      delete cur;
      cur = t;
    } else if (f[0] == "K") {
      Excl* t = new Excl(std::move(*cur));
      delete cur;
      cur = t;
    }
    if (g_bad_free) { m.pages = false; }
    if (g_bad_upfree) { m.up = false; }
    if (g_wrong_upstream) { m.up = false; }
    // every live block: contents, bookkeeping overlap, contains
    std::vector<std::pair<char*, size_t>> books;
    bool walked = walk_books(*cur, books);
    if (!walked) { m.book = false; detail("book", "bookkeeping chain leaves the managed memory"); }
    for (auto& bk : books) {
      Block bb {bk.first, bk.second, 8, -1};
      if (!owned_by(bb)) { m.book = false; detail("book", "bookkeeping array " + num(nom(bk.first)) + " not inside memory the resource holds"); }
    }
    if (!released) {
      for (auto& b : live) {
        if (!owned_by(b)) continue;
        if (!intact(b)) { m.stable = false; detail("stable", "block " + num(nom(b.p)) + "+" + num((long long)b.bytes) + " lost its contents after op " + op); }
        for (auto& bk : books) if (overlap(b.p, b.bytes, bk.first, bk.second)) {
          m.book = false;
          detail("book", "block " + num(nom(b.p)) + "+" + num((long long)b.bytes) + " overlaps bookkeeping array at " + num(nom(bk.first)) + " after op " + op);
        }
        if (b.bytes && (!cur->contains(b.p) || !cur->contains(b.p + b.bytes - 1))) { m.contains = false; detail("contains", "contains() false for live block " + num(nom(b.p))); }
      }
      for (size_t i = 0; i < books.size(); ++i)
        for (size_t j = i + 1; j < books.size(); ++j)
          if (overlap(books[i].first, books[i].second, books[j].first, books[j].second)) { m.book = false; detail("book", "two bookkeeping arrays overlap"); }
    }
    std::string evs;
    for (auto& e : g_events) evs += (evs.empty() ? "" : ",") + e;
    long long o1 = g_pages.last.size() > 0 ? g_pages.last[0] : 0, o2 = g_pages.last.size() > 1 ? g_pages.last[1] : 0;
    long long ou = g_up.last.size() > 0 ? g_up.last[0] : 0;
    out += std::string(first ? " " : " ; ") + "r=" + num(res) + " fb=" + num(nom(cur->_free_begin)) + " fe=" + num(nom(cur->_free_end)) +
           " u=" + num((long long)cur->space_used()) + " a=" + num((long long)cur->space_allocated()) +
           " pt=" + num((long long)(cur->_last_page_pointer - cur->_last_page_array->pages)) + " pa=" + chain_str(*cur, 0) +
           " ot=" + num((long long)(cur->_last_oversize_page_pointer - cur->_last_oversize_page_array->pages)) + " oa=" + chain_str(*cur, 1) +
           " dt=" + num((long long)(cur->_last_destroy_task_pointer - cur->_last_destroy_task_array->tasks)) + " da=" + chain_str(*cur, 2) +
           " ev=" + evs + " #" + num(o1) + "," + num(o2) + "," + num(ou) + "," + num(cptr);
    first = false;
  }
  // destroying the object must not return anything a second time
  g_events.clear();
  bool clean = g_pages.live.empty() && g_up.live.empty();
  delete cur;
  if (clean && !g_events.empty()) { m.reuse = false; detail("reuse", "destroying a released resource touched the allocators again: " + g_events[0]); }
  if (g_bad_free) m.pages = false;
  if (g_bad_upfree) m.up = false;
  if (g_wrong_upstream) m.up = false;
  finish_detail();
  printf("%s | mon_align=%d mon_owned=%d mon_disjoint=%d mon_book=%d mon_stable=%d mon_dtor=%d mon_pages=%d mon_up=%d mon_zero=%d mon_contains=%d mon_reuse=%d detail=%s\n",
         out.c_str(), m.align, m.owned, m.disjoint, m.book, m.stable, m.dtor, m.pages, m.up, m.zero, m.contains, m.reuse, g_detail.c_str());
}

// ------------------------------------------------------------------ two resources, two allocator pairs, move assignment
//   <id> Y <PA> <PB> <destroy b first 0|1> <op> ...   ops: a:A:<bytes>:<align>  a:G  a:C:<k>  a:R  (same with b)
//   X = `a = std::move(b)`   Z = `b = std::move(a)`
static void run_pair(const std::string& id, std::istringstream& in) {
  size_t PA, PB, order;
  in >> PA >> PB >> order;
  g_pages.reset(); g_up.reset(); g_pages2.reset(); g_up2.reset();
  g_pages.psize = PA; g_pages.shuffle = 0; g_pages.threadsafe = false; g_up.threadsafe = false;
  g_pages2.psize = PB; g_pages2.shuffle = 1; g_pages2.threadsafe = false; g_up2.threadsafe = false;
  g_pages2.base_off = PAGE_REGION; g_pages2.tag = 2;
  g_up2.up_off = UP_OFFSET + (480ull << 20); g_up2.up_limit = ARENA; g_up2.tag = 2;
  g_bad_free = false; g_bad_upfree = false; g_wrong_upstream = false; g_details.clear(); g_detail.clear(); g_dtor_calls.clear();
  Mon m;
  struct Content { std::vector<Block> live; std::vector<std::pair<long long, int>> registered; };
  Content content[2];
  int hold[2] = {0, 1};              // which content object a (0) / b (1) currently holds
  Excl* obj[2] = {new Excl, new Excl};
  obj[0]->set_page_allocator(g_pages); obj[0]->set_upstream(g_up);
  obj[1]->set_page_allocator(g_pages2); obj[1]->set_upstream(g_up2);
  const char* nm[2] = {"a", "b"};
  std::string op;
  int nblocks = 0, moves = 0, ops = 0;
  long long tok = 2000;
  auto check_all = [&](const std::string& after) {
    for (int x = 0; x < 2; ++x)
      for (auto& b : content[hold[x]].live) {
        if (!owned_by(b)) { m.owned = false; detail("owned", std::string("block ") + num(nom(b.p)) + " of resource " + nm[x] + " is no longer inside memory lent out by any allocator after " + after); continue; }
        if (!intact(b)) { m.stable = false; detail("stable", std::string("block ") + num(nom(b.p)) + "+" + num((long long)b.bytes) + " of resource " + nm[x] + " lost its contents after " + after); }
        if (b.bytes && (!obj[x]->contains(b.p) || !obj[x]->contains(b.p + b.bytes - 1))) { m.contains = false; detail("contains", std::string("contains() of resource ") + nm[x] + " is false for its live block " + num(nom(b.p)) + " after " + after); }
      }
  };
  auto check_dtors = [&](int x, const std::string& what) {
    auto& reg = content[hold[x]].registered;
    std::vector<std::pair<long long, int>> want(reg.rbegin(), reg.rend());
    if (g_dtor_calls != want) { m.dtor = false; detail("dtor", what + " of resource " + nm[x] + " ran " + num((long long)g_dtor_calls.size()) + " destructor calls for the " + num((long long)want.size()) + " registrations it holds (or not in reverse order)"); }
    reg.clear();
  };
  while (in >> op) {
    ++ops;
    g_events.clear();
    auto f = split(op, ':');
    if (f[0] == "X" || f[0] == "Z") {
      if (f[0] == "X") *obj[0] = std::move(*obj[1]); else *obj[1] = std::move(*obj[0]);
      std::swap(hold[0], hold[1]);
      ++moves;
    } else {
      int x = f[0] == "a" ? 0 : 1;
      if (f[1] == "A") {
        size_t bytes = strtoull(f[2].c_str(), 0, 10), align = strtoull(f[3].c_str(), 0, 10);
        char* p = (char*)obj[x]->allocate(bytes, align);
        Block b {p, bytes, align, nblocks++};
        if (align && ((uintptr_t)p % align) != 0) { m.align = false; detail("align", "allocate returned a misaligned block"); }
        if (!owned_by(b)) { m.owned = false; detail("owned", std::string("allocate on resource ") + nm[x] + " returned " + num(nom(p)) + " outside memory lent out by any allocator"); }
        for (int y = 0; y < 2; ++y) for (auto& o : content[y].live) if (overlap(o.p, o.bytes, b.p, b.bytes)) { m.disjoint = false; detail("disjoint", "allocate = " + num(nom(p)) + " overlaps live block " + num(nom(o.p))); }
        if (owned_by(b)) fill(b);
        content[hold[x]].live.push_back(b);
      } else if (f[1] == "G") {
        int fn = 1 + (int)(tok % 2);
        obj[x]->register_destructor((void*)(uintptr_t)tok, fn == 1 ? fn1 : fn2);
        content[hold[x]].registered.push_back({tok, fn});
        ++tok;
      } else if (f[1] == "C") {
        // probes are part of check_all (every live block after every op)
      } else if (f[1] == "R") {
        g_dtor_calls.clear();
        obj[x]->release();
        check_dtors(x, "release");
        if (obj[x]->space_used() != 0 || obj[x]->space_allocated() != 0) { m.zero = false; detail("zero", "accounting not zero after release"); }
        content[hold[x]].live.clear();
      }
    }
    if (g_bad_free) m.pages = false;
    if (g_bad_upfree || g_wrong_upstream) m.up = false;
    check_all(op);
  }
  for (int k = 0; k < 2; ++k) {
    int x = (order ? 1 - k : k);
    g_dtor_calls.clear();
    delete obj[x];
    check_dtors(x, "destruction");
    content[hold[x]].live.clear();
    if (g_bad_free) m.pages = false;
    if (g_bad_upfree || g_wrong_upstream) m.up = false;
    for (int y = 0; y < 2; ++y) if (y != x && k == 0)
      for (auto& b : content[hold[y]].live) {
        if (!owned_by(b)) { m.owned = false; detail("owned", std::string("destroying resource ") + nm[x] + " took away memory of a live block of resource " + nm[y]); }
        else if (!intact(b)) { m.stable = false; detail("stable", std::string("destroying resource ") + nm[x] + " scribbled a live block of resource " + nm[y]); }
      }
  }
  for (RecPages* rp : {&g_pages, &g_pages2})
    if (!rp->live.empty()) { m.pages = false; detail("pages", num((long long)rp->live.size()) + " page(s) obtained from page allocator #" + num(rp->tag) + " never returned to it, e.g. " + num(nom(rp->live.begin()->first))); }
  for (RecUp* ru : {&g_up, &g_up2})
    if (!ru->live.empty()) { m.up = false; detail("up", num((long long)ru->live.size()) + " oversize block(s) obtained from upstream #" + num(ru->tag) + " never returned to it, e.g. " + num(nom(ru->live.begin()->first))); }
  size_t npages = g_pages.all.size() + g_pages2.all.size(), nover = g_up.all.size() + g_up2.all.size();
  g_pages2.reset(); g_up2.reset();
  finish_detail();
  printf("%s Y PA=%zu PB=%zu ops=%d moves=%d blocks=%d pages=%zu oversize=%zu | mon_align=%d mon_owned=%d mon_disjoint=%d mon_book=%d mon_stable=%d mon_dtor=%d mon_pages=%d mon_up=%d mon_zero=%d mon_contains=%d mon_reuse=%d detail=%s\n",
         id.c_str(), PA, PB, ops, moves, nblocks, npages, nover, m.align, m.owned, m.disjoint, m.book, m.stable, m.dtor, m.pages, m.up,
         m.zero, m.contains, m.reuse, g_detail.c_str());
}

// ------------------------------------------------------------------ shared / swiss case
static uint64_t mix(uint64_t& s) {
  s += 0x9E3779B97F4A7C15ull;
  uint64_t z = s;
  z = (z ^ (z >> 30)) * 0xBF58476D1CE4E5B9ull;
  z = (z ^ (z >> 27)) * 0x94D049BB133111EBull;
  return z ^ (z >> 31);
}

// a destructor registered in one thread's sub-resource that looks at a block of another thread's sub-resource
struct Watcher { const char* peer; size_t bytes; int peer_id; };
static unsigned char pat(int id, size_t i);
static void fn_watch(void* p) {
  auto* w = (Watcher*)p;
  g_dtor_count.fetch_add(1);
  if (g_rel_frees.load() != 0) g_dtor_after_free.fetch_add(1);
  for (size_t i = 0; i < w->bytes; ++i)
    if ((unsigned char)w->peer[i] != pat(w->peer_id, i)) { g_watch_corrupt.fetch_add(1); break; }
}

template <typename R>
static void run_shared(const std::string& id, const char* kind, std::istringstream& in) {
  size_t P, T, N;
  uint64_t seed;
  in >> P >> T >> N >> seed;
  g_pages.reset(); g_up.reset();
  g_pages.psize = P; g_pages.shuffle = seed % 5; g_pages.threadsafe = true; g_up.threadsafe = true;
  g_bad_free = false; g_bad_upfree = false; g_wrong_upstream = false; g_details.clear(); g_detail.clear(); g_events.clear();
  Mon m;
  size_t total_blocks = 0, rounds = 2;
  {
    R res;
    res.set_page_allocator(g_pages);
    res.set_upstream(g_up);
    for (size_t round = 0; round < rounds; ++round) {
      std::vector<std::vector<Block>> per(T);
      std::vector<std::atomic<int>> counters(T * N);
      for (auto& c : counters) c.store(0);
      std::atomic<long long> registered {0};
      g_dtor_count.store(0);
      std::atomic<int> idgen {0};
      auto body = [&](size_t t) {
        uint64_t s = seed * 1000003 + t * 7919 + round;
        for (size_t i = 0; i < N; ++i) {
          uint64_t r = mix(s);
          size_t align = (size_t)1 << (r % 8);
          size_t bytes;
          switch ((r >> 8) % 8) {
            case 0: bytes = 0; break;
            case 1: bytes = P - (r >> 16) % 9; break;
            case 2: bytes = P + 1 + (r >> 16) % 64; break;
            case 3: { long long v = (long long)P - 128 + (long long)((r >> 16) % 17) - 8; bytes = v < 0 ? 0 : (size_t)v; break; }
            case 4: align = P << ((r >> 16) % 3); bytes = 1 + (r >> 20) % 64; break;
            default: bytes = 1 + (r >> 16) % (P / 4); break;
          }
          char* p = (char*)res.allocate(bytes, align);
          Block b {p, bytes, align, idgen.fetch_add(1)};
          if (in_arena(p) || bytes == 0) { if (bytes && in_arena(p)) fill(b); }
          per[t].push_back(b);
          if ((r >> 40) % 3 == 0) {
            res.register_destructor(&counters[t * N + i], fn_count);
            registered.fetch_add(1);
          }
          if ((r >> 44) % 4 == 0) std::this_thread::yield();
        }
      };
      // waves: later threads are created while earlier ones allocate; finished threads free their ids for reuse
      std::vector<std::thread> th;
      size_t started = 0;
      while (started < T) {
        size_t wave = std::min<size_t>(T - started, 1 + (seed + started) % 4);
        for (size_t k = 0; k < wave; ++k) { size_t t = started++; th.emplace_back(body, t); }
        if ((seed + started) % 3 == 0 && !th.empty()) { th.front().join(); th.erase(th.begin()); }
      }
      for (auto& t : th) t.join();
      // watcher phase: W threads alive at the same time (distinct sub-resources); each allocates a small and an
      // oversize payload, then registers - in ITS sub-resource - destructors that inspect the NEXT thread's payloads
      // (a ring, so whatever the enumeration order some destructor looks at an earlier-enumerated sub-resource)
      size_t W = std::max<size_t>(2, std::min<size_t>(T, 4));
      std::vector<std::vector<Block>> wblk(W);
      std::vector<Watcher> watchers(2 * W);
      {
        std::atomic<size_t> arrived {0}, registered_w {0};
        auto wbody = [&](size_t t) {
          for (size_t k = 0; k < 2; ++k) {
            size_t bytes = k == 0 ? 64 + 8 * t : P + 8 + t;
            char* p = (char*)res.allocate(bytes, 8);
            Block b {p, bytes, 8, idgen.fetch_add(1)};
            if (in_arena(p)) fill(b);
            wblk[t].push_back(b);
          }
          arrived.fetch_add(1);
          while (arrived.load() < W) std::this_thread::yield();
          for (size_t k = 0; k < 2; ++k) {
            const Block& peer = wblk[(t + 1) % W][k];
            watchers[2 * t + k] = Watcher {peer.p, in_arena(peer.p) ? peer.bytes : 0, peer.id};
            res.register_destructor(&watchers[2 * t + k], fn_watch);
            registered.fetch_add(1);
          }
          registered_w.fetch_add(1);
          while (registered_w.load() < W) std::this_thread::yield();   // all alive until every registration is done
        };
        std::vector<std::thread> wt;
        for (size_t t = 0; t < W; ++t) wt.emplace_back(wbody, t);
        for (auto& t : wt) t.join();
      }
      std::vector<Block> all;
      for (auto& v : wblk) for (auto& b : v) all.push_back(b);
      for (auto& v : per) for (auto& b : v) all.push_back(b);
      total_blocks += all.size();
      for (auto& b : all) {
        if (b.align && ((uintptr_t)b.p % b.align) != 0) { m.align = false; detail("align", "concurrent allocate returned a misaligned block"); }
        if (!owned_by(b)) { m.owned = false; detail("owned", "concurrent allocate returned block " + num(nom(b.p)) + " outside memory the resource holds"); }
        else if (!intact(b)) { m.stable = false; detail("stable", "block " + num(nom(b.p)) + "+" + num((long long)b.bytes) + " lost its contents while other threads allocated"); }
        if (b.bytes && !res.contains(b.p)) { m.contains = false; detail("contains", "contains() false for a live block of the shared resource"); }
      }
      std::vector<Block> sorted;
      for (auto& b : all) if (b.bytes) sorted.push_back(b);
      std::sort(sorted.begin(), sorted.end(), [](const Block& a, const Block& b) { return a.p < b.p; });
      for (size_t i = 1; i < sorted.size(); ++i)
        if (sorted[i - 1].p + sorted[i - 1].bytes > sorted[i].p) { m.disjoint = false; detail("disjoint", "blocks given to concurrent threads overlap: " + num(nom(sorted[i - 1].p)) + "+" + num((long long)sorted[i - 1].bytes) + " and " + num(nom(sorted[i].p))); }
      g_rel_frees.store(0); g_dtor_after_free.store(0); g_watch_corrupt.store(0);
      res.release();
      if (g_dtor_after_free.load() != 0) { m.dtor = false; detail("dtor", "release of the shared resource returned pages / oversize blocks before all registered destructors had run: " + num(g_dtor_after_free.load()) + " destructor call(s) came after the first deallocation"); }
      if (g_watch_corrupt.load() != 0) { m.stable = false; detail("stable", num(g_watch_corrupt.load()) + " destructor(s) registered in one thread's sub-resource found a live block of another thread's sub-resource already returned and scribbled during release"); }
      for (size_t i = 0; i < counters.size(); ++i) if (counters[i].load() > 1) { m.dtor = false; detail("dtor", "a destructor ran twice"); }
      if (g_dtor_count.load() != registered.load()) { m.dtor = false; detail("dtor", "release of the shared resource ran " + num(g_dtor_count.load()) + " destructors for " + num(registered.load()) + " registrations"); }
      if (!g_pages.live.empty()) { m.pages = false; detail("pages", num((long long)g_pages.live.size()) + " page(s) not returned by release of the shared resource"); }
      if (!g_up.live.empty()) { m.up = false; detail("up", num((long long)g_up.live.size()) + " oversize block(s) not returned by release of the shared resource"); }
      if (res.space_used() != 0 || res.space_allocated() != 0) { m.zero = false; detail("zero", "shared accounting not zero after release"); }
      g_pages.live.clear(); g_up.live.clear();
    }
    g_events.clear();
  }
  if (g_bad_free) m.pages = false;
  if (g_bad_upfree) m.up = false;
  if (g_wrong_upstream) m.up = false;
  finish_detail();
  printf("%s %s P=%zu T=%zu N=%zu blocks=%zu pages=%zu oversize=%zu | mon_align=%d mon_owned=%d mon_disjoint=%d mon_book=%d mon_stable=%d mon_dtor=%d mon_pages=%d mon_up=%d mon_zero=%d mon_contains=%d mon_reuse=%d detail=%s\n",
         id.c_str(), kind, P, T, N, total_blocks, g_pages.all.size(), g_up.all.size(), m.align, m.owned, m.disjoint, m.book, m.stable,
         m.dtor, m.pages, m.up, m.zero, m.contains, m.reuse, g_detail.c_str());
}

int main() {
  char* raw = (char*)mmap(nullptr, ARENA + (64ull << 20), PROT_READ | PROT_WRITE, MAP_PRIVATE | MAP_ANONYMOUS | MAP_NORESERVE, -1, 0);
  if (raw == MAP_FAILED) { perror("mmap"); return 2; }
  g_base = (char*)(((uintptr_t)raw + (64ull << 20) - 1) & ~((uintptr_t)(64ull << 20) - 1));
  setvbuf(stdout, nullptr, _IOLBF, 0);
  std::string line;
  char buf[1 << 16];
  while (fgets(buf, sizeof buf, stdin)) {
    std::istringstream in(buf);
    std::string id, kind;
    if (!(in >> id >> kind)) continue;
    if (id == "const") {
      printf("const sizeof_PageArray=%zu sizeof_OversizePageArray=%zu sizeof_DestroyTaskArray=%zu alignof_PageArray=%zu PAGE_ARRAY_CAPACITY=%zu DESTROY_TASK_ARRAY_CAPACITY=%zu\n",
             sizeof(Excl::PageArray), sizeof(Excl::OversizePageArray), sizeof(Excl::DestroyTaskArray), alignof(Excl::PageArray),
             (size_t)Excl::PAGE_ARRAY_CAPACITY, (size_t)Excl::DESTROY_TASK_ARRAY_CAPACITY);
      continue;
    }
    if (kind == "X") run_exclusive(id, in);
    else if (kind == "Y") run_pair(id, in);
    else if (kind == "S") run_shared<SharedMonotonicBufferResource>(id, "S", in);
    else if (kind == "W") run_shared<SwissMemoryResource>(id, "W", in);
  }
  return 0;
}
