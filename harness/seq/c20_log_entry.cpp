// C20 sequential driver: real LogStreamBuffer / LogEntry::append_to_iovec / AsyncFileAppender::discard
// stdin: "p n chunkseed" per line; stdout: canonical line compared with the model + monitor verdicts.
#include "babylon/logging/async_file_appender.h"
#include "babylon/logging/log_entry.h"

#include <cstdio>
#include <cstdlib>
#include <cstring>
#include <map>
#include <string>
#include <vector>

using namespace babylon;

struct RecordingAllocator : public PageAllocator {
  size_t psize {0};
  std::vector<void*> order;          // allocation order
  std::map<void*, int> index;        // page -> allocation index
  std::map<void*, int> freed;        // page -> times deallocated
  // slab mode: pages are carved from one arena, adjacent in memory in ascending address order (what a slab / pool
  // allocator set through set_page_allocator hands out), so "the next page starts where this one ends" is exercised
  bool slab {false};
  char* arena {nullptr}; size_t arena_used {0};
  static constexpr size_t ARENA = 4u << 20;
  size_t page_size() const noexcept override { return psize; }
  using PageAllocator::allocate;
  using PageAllocator::deallocate;
  void allocate(void** pages, size_t num) noexcept override {
    for (size_t i = 0; i < num; ++i) {
      void* p;
      if (slab && arena_used + psize <= ARENA) {
        if (!arena) arena = (char*)aligned_alloc(64, ARENA);
        p = arena + arena_used; arena_used += psize;
      } else {
        p = aligned_alloc(64, (psize + 63) / 64 * 64);
      }
      memset(p, 0xEE, psize);
      index[p] = (int)order.size();
      order.push_back(p);
      pages[i] = p;
    }
  }
  void deallocate(void** pages, size_t num) noexcept override {
    for (size_t i = 0; i < num; ++i) freed[pages[i]]++;
  }
  void reset() {
    for (auto p : order) if (!(arena && (char*)p >= arena && (char*)p < arena + ARENA)) free(p);
    arena_used = 0;
    order.clear(); index.clear(); freed.clear();
  }
};

static uint64_t rng_state;
static uint64_t rnd() {
  rng_state += 0x9E3779B97F4A7C15ull;
  uint64_t z = rng_state;
  z = (z ^ (z >> 30)) * 0xBF58476D1CE4E5B9ull;
  z = (z ^ (z >> 27)) * 0x94D049BB133111EBull;
  return z ^ (z >> 31);
}

int main() {
  RecordingAllocator alloc;
  char line[256];
  printf("const INLINE_PAGE_CAPACITY=%zu MAX_INLINE_SIZE=%zu sizeof_PageTable=%zu sizeof_LogEntry=%zu\n",
         LogEntry::INLINE_PAGE_CAPACITY, LogEntry::MAX_INLINE_SIZE, sizeof(LogEntry::PageTable), sizeof(LogEntry));
  while (fgets(line, sizeof line, stdin)) {
    unsigned long p, n, cs;
    if (sscanf(line, "%lu %lu %lu", &p, &n, &cs) != 3) continue;
    alloc.psize = p;
    alloc.slab = cs == 1 || (cs >= 2 && ((cs >> 1) & 1));
    rng_state = cs;
    std::string bytes(n, 0);
    for (size_t i = 0; i < n; ++i) bytes[i] = (char)((i * 7 + 3) % 251);
    LogStreamBuffer buf;
    buf.set_page_allocator(alloc);
    buf.begin();
    size_t pos = 0;
    while (pos < n) {
      size_t k = cs == 0 ? n : (cs == 1 ? 1 : 1 + rnd() % (2 * p + 3));
      if (k > n - pos) k = n - pos;
      if (k == 1 && (cs & 1)) buf.sputc(bytes[pos]);
      else buf.sputn(bytes.data() + pos, (std::streamsize)k);
      pos += k;
      // a flush in the middle of an entry (std::endl / std::flush / pubsync) must not change what is accounted
      if (cs >= 2 && (rnd() % 3) == 0) buf.pubsync();
    }
    LogEntry& e = buf.end();
    std::vector<struct ::iovec> iov;
    e.append_to_iovec(p, iov);
    std::string got;
    std::string iovs;
    bool unknown = false, dup = false;
    std::map<void*, int> seen;
    for (auto& v : iov) {
      auto it = alloc.index.find(v.iov_base);
      if (it == alloc.index.end()) { unknown = true; iovs += "?:" + std::to_string(v.iov_len) + ","; continue; }
      if (seen[v.iov_base]++) dup = true;
      if (v.iov_len <= p) got.append((char*)v.iov_base, v.iov_len);
      iovs += std::to_string(it->second) + ":" + std::to_string(v.iov_len) + ",";
    }
    if (!iovs.empty()) iovs.pop_back();
    bool all = seen.size() == alloc.order.size();
    bool bytes_ok = !unknown && got == bytes;
    // return the pages the way the appender does for a discarded entry
    AsyncFileAppender app;
    app.set_page_allocator(alloc);
    app.discard(e);
    bool returned = true;
    for (auto pg : alloc.order) if (alloc.freed[pg] != 1) returned = false;
    if (alloc.freed.size() != alloc.order.size()) returned = false;
    printf("p=%lu n=%lu err=0 size=%zu alloc=%zu iov=%s bytes_ok=%d | mon_pages_once=%d mon_returned=%d\n", p, n, e.size,
           alloc.order.size(), iovs.c_str(), bytes_ok ? 1 : 0, (!unknown && !dup && all) ? 1 : 0, returned ? 1 : 0);
    alloc.reset();
  }
  return 0;
}
