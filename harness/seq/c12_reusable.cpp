// C12 sequential driver: real babylon::SwissVector / SwissString / SwissManager against std::vector / std::string
// (three-way with the extracted model, which prints the same canonical line).
// stdin, one case per line:
//   <id> V <type> <op2 token>...                      two vectors a, b on one SwissMemoryResource
//   <id> A <type> <op2 token>...                      same, with aliasing ops pba.i / insa.pos.i / insna.pos.n.i (no model)
//   <id> M <type> <interval> <cycles> <op token>...   one vector managed by a SwissManager, same workload every cycle
//   <id> S <interval> <cycles> <seed>                 one managed SwissString against std::string (monitors only)
// type: i int | c counting element | s SwissString | n SwissVector<int> | b std::basic_string<char,..,SwissAllocator>
// stdout: "<id> <canonical observations> | monitor=0/1 ..."
#include "babylon/reusable/manager.h"
#include "babylon/reusable/string.h"
#include "babylon/reusable/vector.h"

#include <cstdio>
#include <cstdlib>
#include <cstring>
#include <iostream>
#include <map>
#include <set>
#include <sstream>
#include <string>
#include <vector>

using namespace babylon;

// ---------------------------------------------------------------------------------------------------------
// counting element: every constructor / assignment / destructor checks the raw / constructed discipline
static std::set<const void*> g_live;
static SwissMemoryResource* g_res = nullptr;
static SwissMemoryResource* g_res2 = nullptr;   // second resource of the V cases (different-allocator copies / moves)
static bool in_res(const void* p) { return (g_res && g_res->contains(p)) || (g_res2 && g_res2->contains(p)); }
static long g_ctor = 0, g_dtor = 0;   // calls on addresses inside the resource
static int g_bad_ctor_over_live = 0, g_bad_use_of_dead = 0, g_bad_dtor_of_dead = 0;

struct Counting {
  using AllocationMetadata = void;
  int v;
  void born() {
    if (!g_live.insert(this).second) g_bad_ctor_over_live++;
    if (in_res(this)) g_ctor++;
  }
  void alive() const { if (!g_live.count(this)) g_bad_use_of_dead++; }
  Counting() : v(0) { born(); }
  Counting(int x) : v(x) { born(); }
  Counting(const Counting& o) : v(o.v) { o.alive(); born(); }
  Counting(Counting&& o) noexcept : v(o.v) { o.alive(); born(); }
  Counting& operator=(const Counting& o) { alive(); o.alive(); v = o.v; return *this; }
  Counting& operator=(Counting&& o) noexcept { alive(); o.alive(); v = o.v; return *this; }
  void clear() { alive(); v = 0; }
  ~Counting() {
    if (!g_live.erase(this)) g_bad_dtor_of_dead++;
    else if (in_res(this)) g_dtor++;
  }
};
static long live_in_resource() {
  long n = 0;
  for (auto p : g_live) if (in_res(p)) n++;
  return n;
}

// ---------------------------------------------------------------------------------------------------------
static std::vector<std::string> g_strs;          // value k -> string; some values carry embedded NUL bytes
static std::vector<std::string> g_cstrs;         // value k -> NUL-free string (element type passed as const char*)
static std::map<std::string, int> g_str_key;
static SwissMemoryResource* g_value_res = nullptr; // holds the nested value table
static std::vector<SwissVector<int>*> g_nested;  // value k -> nested vector

static void init_tables() {
  for (int k = 0; k < 100; ++k) {
    std::string s = k == 0 ? std::string() : "s" + std::to_string(k) + std::string((k * 7) % 40, 'x');
    g_cstrs.push_back(s);
    g_str_key[s] = k;
    // embedded NULs: short ("sK\0b", "\0", "x\0\0y"-like) and long (beyond the small-string buffer) ones
    if (k % 5 == 1) s = "s" + std::to_string(k) + std::string(1, '\0') + "b";
    else if (k % 5 == 2) s = std::string(1, '\0') + "n" + std::to_string(k);
    else if (k % 5 == 3) s = "x" + std::string(2, '\0') + "y" + std::to_string(k) + std::string((k * 3) % 37, 'z') + std::string(1, '\0');
    else if (k == 95) s = std::string(1, '\0');
    g_strs.push_back(s);
    g_str_key[s] = k;
  }
  g_value_res = new SwissMemoryResource;
  SwissAllocator<> al {*g_value_res};
  for (int k = 0; k < 100; ++k) {
    auto* v = new SwissVector<int>(al);
    if (k > 0) v->assign((size_t)(k % 3 + 1), k);
    g_nested.push_back(v);
  }
}

using RawString = std::basic_string<char, std::char_traits<char>, SwissAllocator<char>>;

template <class T> struct El;
template <> struct El<int> {
  using X = int;
  static X make(int k) { return k; }
  static int read(const int& e) { return e; }
  static bool eq(const int& e, int k) { return e == k; }
  static constexpr bool stale = true;
};
template <> struct El<Counting> {
  using X = Counting;
  static X make(int k) { return Counting(k); }
  static int read(const Counting& e) { return e.v; }
  static bool eq(const Counting& e, int k) { return e.v == k; }
  static constexpr bool stale = true;
};
template <> struct El<SwissString> {
  using X = std::string;
  static X make(int k) { return g_strs[k]; }
  static int read(const SwissString& e) {
    auto it = g_str_key.find(std::string(e.data(), e.size()));
    return it == g_str_key.end() ? -2 : it->second;
  }
  static bool eq(const SwissString& e, int k) { return e.size() == g_strs[k].size() && memcmp(e.data(), g_strs[k].data(), e.size()) == 0; }
  static constexpr bool stale = false;
};
template <> struct El<RawString> {
  using X = const char*;
  static X make(int k) { return g_cstrs[k].c_str(); }
  static int read(const RawString& e) {
    auto it = g_str_key.find(std::string(e.data(), e.size()));
    return it == g_str_key.end() ? -2 : it->second;
  }
  static bool eq(const RawString& e, int k) { return e.size() == g_cstrs[k].size() && memcmp(e.data(), g_cstrs[k].data(), e.size()) == 0; }
  static constexpr bool stale = false;
};
template <> struct El<SwissVector<int>> {
  using X = const SwissVector<int>&;
  static X make(int k) { return *g_nested[k]; }
  static int read(const SwissVector<int>& e) {
    if (e.empty()) return 0;
    int k = e[0];
    if (k <= 0 || k >= 100 || e.size() != (size_t)(k % 3 + 1)) return -2;
    for (auto x : e) if (x != k) return -2;
    return k;
  }
  static bool eq(const SwissVector<int>& e, int k) { return read(e) == k; }
  static constexpr bool stale = false;
};

static std::vector<std::string> split(const std::string& s, char c) {
  std::vector<std::string> out;
  std::string cur;
  for (char ch : s) { if (ch == c) { out.push_back(cur); cur.clear(); } else cur += ch; }
  out.push_back(cur);
  return out;
}
static std::vector<int> ints(const std::string& s) {
  std::vector<int> out;
  if (s.empty()) return out;
  for (auto& x : split(s, ',')) out.push_back(atoi(x.c_str()));
  return out;
}

template <class T>
static std::string show(const SwissVector<T>& v) {
  std::string s = std::to_string(v.size()) + "/" + std::to_string(v.constructed_size()) + "/" +
                  std::to_string(v.capacity()) + "[";
  for (size_t i = 0; i < v.size(); ++i) { if (i) s += ","; s += std::to_string(El<T>::read(v[i])); }
  s += "|";
  if (El<T>::stale) {
    for (size_t i = v.size(); i < v.constructed_size(); ++i) {
      if (i > v.size()) s += ",";
      s += std::to_string(El<T>::read(v.data()[i]));
    }
  }
  return s + "]";
}

template <class T>
static bool same(const SwissVector<T>& v, const std::vector<int>& r) {
  if (v.size() != r.size()) return false;
  if (v.empty() != r.empty()) return false;
  size_t i = 0;
  for (auto it = v.begin(); it != v.end(); ++it, ++i) if (!El<T>::eq(*it, r[i])) return false;
  for (i = 0; i < r.size(); ++i) if (!El<T>::eq(v[i], r[i])) return false;
  if (!r.empty() && (!El<T>::eq(v.front(), r.front()) || !El<T>::eq(v.back(), r.back()))) return false;
  return true;
}

// one operation on the real vector and on the std::vector of keys; alt selects between equivalent entry points
template <class T>
static void apply(SwissVector<T>& v, std::vector<int>& r, const std::vector<std::string>& f, unsigned alt) {
  using E = El<T>;
  auto N = [&](int k) { return (size_t)atol(f[k].c_str()); };
  auto K = [&](int k) { return atoi(f[k].c_str()); };
  const std::string& o = f[0];
  if (o == "pb") {
    if (alt & 1) v.push_back(E::make(K(1))); else v.emplace_back(E::make(K(1)));
    r.push_back(K(1));
  } else if (o == "pop") {
    v.pop_back(); r.pop_back();
  } else if (o == "ins") {
    auto it = (alt & 1) ? v.insert(v.begin() + N(1), E::make(K(2))) : v.emplace(v.cbegin() + N(1), E::make(K(2)));
    if (it != v.begin() + N(1)) r.clear(), r.push_back(-7);   // wrong iterator returned: force a mismatch
    else r.insert(r.begin() + N(1), K(2));
  } else if (o == "insn") {
    auto it = v.insert(v.begin() + N(1), N(2), E::make(K(3)));
    if (it != v.begin() + N(1)) r.clear(), r.push_back(-7);
    else r.insert(r.begin() + N(1), N(2), K(3));
  } else if (o == "insr") {
    auto ks = ints(f[2]);
    std::vector<std::remove_cv_t<std::remove_reference_t<typename E::X>>> xs;
    for (int k : ks) xs.push_back(E::make(k));
    v.insert(v.begin() + N(1), xs.begin(), xs.end());
    r.insert(r.begin() + N(1), ks.begin(), ks.end());
  } else if (o == "er") {
    auto it = (N(2) == N(1) + 1 && (alt & 1)) ? v.erase(v.begin() + N(1)) : v.erase(v.begin() + N(1), v.begin() + N(2));
    if (it != v.begin() + N(1)) r.clear(), r.push_back(-7);
    else r.erase(r.begin() + N(1), r.begin() + N(2));
  } else if (o == "rs") {
    v.resize(N(1)); r.resize(N(1), 0);
  } else if (o == "rsv") {
    v.resize(N(1), E::make(K(2))); r.resize(N(1), K(2));
  } else if (o == "res") {
    v.reserve(N(1));
  } else if (o == "clr") {
    v.clear(); r.clear();
  } else if (o == "asn") {
    v.assign(N(1), E::make(K(2))); r.assign(N(1), K(2));
  } else if (o == "asr") {
    auto ks = ints(f[1]);
    std::vector<std::remove_cv_t<std::remove_reference_t<typename E::X>>> xs;
    for (int k : ks) xs.push_back(E::make(k));
    v.assign(xs.begin(), xs.end());
    r = ks;
  } else if (o == "asc") {
    v.assign(N(1)); r.assign(N(1), 0);
  } else if (o == "set") {
    v[N(1)] = E::make(K(2)); r[N(1)] = K(2);
  } else if (o == "pba") {        // push_back(v[i]) : the argument aliases an element (std::vector must cope)
    int k = r[N(1)];
    v.push_back(v[N(1)]); r.push_back(k);
  } else if (o == "insa") {       // insert(pos, v[i])
    int k = r[N(2)];
    v.insert(v.begin() + N(1), v[N(2)]); r.insert(r.begin() + N(1), k);
  } else if (o == "insna") {      // insert(pos, n, v[i])
    int k = r[N(3)];
    v.insert(v.begin() + N(1), N(2), v[N(3)]); r.insert(r.begin() + N(1), N(2), k);
  } else {
    fprintf(stderr, "bad op %s\n", o.c_str());
    exit(2);
  }
}

static size_t demand(size_t sz, const std::vector<std::string>& f) {
  const std::string& o = f[0];
  auto N = [&](int k) { return (size_t)atol(f[k].c_str()); };
  if (o == "pb" || o == "ins") return sz + 1;
  if (o == "insn") return sz + N(2);
  if (o == "insr") return sz + ints(f[2]).size();
  if (o == "rs" || o == "rsv" || o == "res" || o == "asn" || o == "asc") return N(1);
  if (o == "asr") return ints(f[1]).size();
  return 0;
}

// V / A cases.  a and b are heap objects that can be replaced by newly constructed ones; two resources.
// Whole-object tokens (?? = ab: a is the destination / new object and b the source; ba: the other way round):
//   swap            member swap / ADL swap (alternating)        swapstd  std::swap = plain move ctor + 2 move assignments
//   cp??            dst = src                                    mv??     dst = std::move(src); src.clear()   (same resource)
//   mv??d           dst = std::move(src); src.clear()            (different resources: element-wise)
//   cc??            dst replaced by  V(src)                      cx??<r>  dst replaced by  V(src, allocator of resource r)
//   mc??            dst replaced by  V(std::move(src))           : src must be left EMPTY AND USABLE (no clear)
//   mx??<r>s        dst replaced by  V(std::move(src), alloc r), r = src's resource: src left empty (no clear)
//   mx??<r>d        same, r != src's resource: element-wise; src.clear()
// Both objects are operated on afterwards and compared with std::vector after every token.
template <class T>
static void run_v(const std::string& id, const std::vector<std::string>& toks) {
  g_live.clear(); g_ctor = g_dtor = 0; g_bad_ctor_over_live = g_bad_use_of_dead = g_bad_dtor_of_dead = 0;
  SwissMemoryResource resource, resource2;
  g_res = &resource;
  g_res2 = &resource2;
  SwissAllocator<> al {resource}, al2 {resource2};
  using V = SwissVector<T>;
  std::string out = id;
  bool std_eq = true, cap_mono = true, clear_keep = true, live_ok = true, size_le = true, alloc_ok = true;
  int first_bad = -1;
  long ctor = 0, dtor = 0;
  {
    V* a = new V(al);
    V* b = new V(al);
    std::vector<int> ra, rb;
    int idx = 0;
    for (auto& t : toks) {
      size_t capa = a->capacity(), capb = b->capacity(), csa = a->constructed_size(), csb = b->constructed_size();
      const void* da = a->data();
      const void* db = b->data();
      bool exch = false, rebuilt = false;
      bool whole = t.find('.') == std::string::npos;
      if (whole && t.compare(0, 4, "swap") == 0) {
        if (!(a->get_allocator() == b->get_allocator())) alloc_ok = false;
        else if (t == "swapstd") std::swap(*a, *b);
        else if (idx & 1) a->swap(*b);
        else swap(*a, *b);
        ra.swap(rb); exch = true;
      } else if (whole) {
        bool ab = t.compare(2, 2, "ab") == 0;
        V*& dst = ab ? a : b;
        V*& src = ab ? b : a;
        std::vector<int>& rd = ab ? ra : rb;
        std::vector<int>& rs = ab ? rb : ra;
        std::string kind = t.substr(0, 2), tail = t.substr(4);
        bool same_alloc = dst->get_allocator() == src->get_allocator();
        if (kind == "cp") { *dst = *src; rd = rs; }
        else if (kind == "mv") {
          if ((tail == "d") == same_alloc) alloc_ok = false;
          *dst = std::move(*src); src->clear();
          rd = std::move(rs); rs.clear(); exch = same_alloc;
        } else {
          V* fresh = nullptr;
          if (kind == "cc") { fresh = new V(*src); rd = rs; }
          else if (kind == "cx") { fresh = new V(*src, tail == "1" ? al : al2); rd = rs; }
          else if (kind == "mc") { fresh = new V(std::move(*src)); rd = std::move(rs); rs.clear(); }
          else if (kind == "mx") {
            SwissAllocator<> target = tail[0] == '1' ? al : al2;
            bool same = target == src->get_allocator();
            if ((tail[1] == 's') != same) alloc_ok = false;
            fresh = new V(std::move(*src), target);
            if (!same) src->clear();
            rd = std::move(rs); rs.clear();
          } else { fprintf(stderr, "bad token %s\n", t.c_str()); exit(2); }
          delete dst;
          dst = fresh;
          rebuilt = true;
        }
      } else {
        auto f = split(t, '.');
        std::vector<std::string> rest(f.begin() + 1, f.end());
        if (f[0] == "a") apply(*a, ra, rest, (unsigned)idx); else apply(*b, rb, rest, (unsigned)idx);
        if (rest[0] == "clr") {
          auto& v = f[0] == "a" ? *a : *b;
          size_t c0 = f[0] == "a" ? capa : capb, s0 = f[0] == "a" ? csa : csb;
          const void* d0 = f[0] == "a" ? da : db;
          if (v.capacity() != c0 || v.constructed_size() != s0 || v.data() != d0 || !v.empty()) clear_keep = false;
        }
      }
      if (exch) { std::swap(capa, capb); }
      if (!rebuilt && (a->capacity() < capa || b->capacity() < capb)) cap_mono = false;
      if (a->size() > a->constructed_size() || a->constructed_size() > a->capacity() || b->size() > b->constructed_size() ||
          b->constructed_size() > b->capacity() || (a->capacity() > 0 && a->data() == nullptr) ||
          (b->capacity() > 0 && b->data() == nullptr)) size_le = false;
      if (!size_le) {   // the object is corrupt: going on would only crash; report what was seen
        out += " A=" + std::to_string(a->size()) + "/" + std::to_string(a->constructed_size()) + "/" +
               std::to_string(a->capacity()) + "[!] B=" + std::to_string(b->size()) + "/" +
               std::to_string(b->constructed_size()) + "/" + std::to_string(b->capacity()) + "[!]";
        if (first_bad < 0) first_bad = idx;
        printf("%s ; ctor=- dtor=- | std_eq=%d cap_mono=%d clear_keep=%d size_le=0 disc=1 live_ok=1 dtor_bal=1 alloc_ok=%d "
               "first_bad=%d\n", out.c_str(), std_eq, cap_mono, clear_keep, alloc_ok, first_bad);
        fflush(stdout);
        g_res = nullptr; g_res2 = nullptr;
        return;   // a and b are leaked on purpose: their destructors would walk slots that do not exist
      }
      if (!same(*a, ra) || !same(*b, rb)) { if (std_eq) first_bad = idx; std_eq = false; }
      if (std::is_same<T, Counting>::value &&
          live_in_resource() != (long)(a->constructed_size() + b->constructed_size())) live_ok = false;
      out += " A=" + show(*a) + " B=" + show(*b);
      ++idx;
    }
    ctor = g_ctor; dtor = g_dtor;
    delete a;
    delete b;
  }
  bool dtor_bal = !std::is_same<T, Counting>::value || live_in_resource() == 0;
  bool disc = g_bad_ctor_over_live == 0 && g_bad_use_of_dead == 0 && g_bad_dtor_of_dead == 0;
  g_res = nullptr;
  g_res2 = nullptr;
  if (std::is_same<T, Counting>::value) out += " ; ctor=" + std::to_string(ctor) + " dtor=" + std::to_string(dtor);
  else out += " ; ctor=- dtor=-";
  printf("%s | std_eq=%d cap_mono=%d clear_keep=%d size_le=%d disc=%d live_ok=%d dtor_bal=%d alloc_ok=%d first_bad=%d\n",
         out.c_str(), std_eq, cap_mono, clear_keep, size_le, disc, live_ok, dtor_bal, alloc_ok, first_bad);
}

template <class T> struct ElemCap { static size_t get(const T&) { return 0; } };
template <> struct ElemCap<SwissString> { static size_t get(const SwissString& s) { return s.capacity(); } };
template <> struct ElemCap<SwissVector<int>> { static size_t get(const SwissVector<int>& s) { return s.capacity(); } };

template <class T>
static void run_m(const std::string& id, size_t itv, int cycles, const std::vector<std::string>& toks) {
  g_live.clear(); g_ctor = g_dtor = 0; g_bad_ctor_over_live = g_bad_use_of_dead = g_bad_dtor_of_dead = 0;
  std::string out = id;
  bool std_eq = true, fresh = true, acc_ok = true, keep = true, rebuilt_cap = true, no_growth = true, alloc_stable = true,
       recreate_cadence = true, elem_keep = true;
  int first_bad = -1;
  {
    SwissManager manager;
    manager.set_recreate_interval(itv);
    g_res = &manager.resource();
    auto acc = manager.template create_object<SwissVector<T>>();
    std::vector<std::vector<std::string>> ops;
    for (auto& t : toks) ops.push_back(split(t, '.'));
    size_t max_cs = 0, max_elem_cap = 0;
    int first_recreate = -1;
    std::vector<size_t> used_after, alloc_after;
    size_t since = 0;
    for (int c = 1; c <= cycles; ++c) {
      if (!acc || !manager.resource().contains(acc.get())) { acc_ok = false; break; }
      SwissVector<T>& v = *acc;
      std::vector<int> r;
      size_t cap0 = v.capacity();
      size_t used0 = manager.resource().space_used();
      size_t peak = 0;
      int idx = 0;
      for (auto& f : ops) {
        size_t d = demand(r.size(), f);
        if (d > peak) peak = d;
        apply(v, r, f, (unsigned)(idx + c));
        if (!same(v, r)) { if (std_eq) first_bad = idx; std_eq = false; }
        ++idx;
      }
      size_t used1 = manager.resource().space_used();
      // converged: a recreate has happened after at least one full run of the workload, and the capacity fits
      if (first_recreate > 0 && c > first_recreate && cap0 >= peak && used1 != used0) no_growth = false;
      out += " W=" + show(v);
      size_t cap1 = v.capacity(), cs1 = v.constructed_size();
      const void* d1 = v.data();
      const void* o1 = acc.get();
      if (cs1 > max_cs) max_cs = cs1;
      std::vector<size_t> ecap;
      for (size_t i = 0; i < cs1; ++i) {
        ecap.push_back(ElemCap<T>::get(v.data()[i]));
        if (ecap.back() > max_elem_cap) max_elem_cap = ecap.back();
      }
      manager.clear();
      ++since;
      bool expect_recreate = since >= itv;
      if (expect_recreate) since = 0;
      if (!acc || !manager.resource().contains(acc.get())) { acc_ok = false; break; }
      SwissVector<T>& w = *acc;
      if (!w.empty() || w.size() != 0 || w.begin() != w.end()) fresh = false;
      bool moved = acc.get() != o1 || w.data() != d1;
      if (expect_recreate) {
        if (first_recreate < 0) first_recreate = c;
        // rebuilt from the metadata: nothing that was constructed is lost
        if (w.capacity() < max_cs || w.constructed_size() < max_cs) rebuilt_cap = false;
        for (size_t i = 0; i < w.constructed_size(); ++i)
          if (ElemCap<T>::get(w.data()[i]) < max_elem_cap) rebuilt_cap = false;
      } else {
        if (moved) recreate_cadence = false;
        if (w.capacity() < cap1 || w.constructed_size() != cs1 || w.data() != d1) keep = false;
        for (size_t i = 0; i < cs1 && i < w.constructed_size(); ++i)
          if (ElemCap<T>::get(w.data()[i]) < ecap[i]) elem_keep = false;
      }
      out += " C=" + show(w);
      used_after.push_back(manager.resource().space_used());
      alloc_after.push_back(manager.resource().space_allocated());
      // same phase of the recreate period, both after the first recreate: no growth of what the resource holds
      size_t period = itv == 0 ? 1 : itv;
      int prev = c - (int)period;
      if (first_recreate > 0 && prev >= first_recreate) {
        if (used_after[c - 1] > used_after[prev - 1]) no_growth = false;
        if (alloc_after[c - 1] > alloc_after[prev - 1]) alloc_stable = false;
      }
    }
    g_res = nullptr;
  }
  bool disc = g_bad_ctor_over_live == 0 && g_bad_use_of_dead == 0 && g_bad_dtor_of_dead == 0;
  printf("%s | std_eq=%d fresh=%d acc_ok=%d keep=%d elem_keep=%d rebuilt_cap=%d no_growth=%d alloc_stable=%d cadence=%d disc=%d "
         "first_bad=%d\n", out.c_str(), std_eq, fresh, acc_ok, keep, elem_keep, rebuilt_cap, no_growth, alloc_stable,
         recreate_cadence, disc, first_bad);
}

// ---------------------------------------------------------------------------------------------------------
static uint64_t rng_state;
static uint64_t rnd() {
  rng_state += 0x9E3779B97F4A7C15ull;
  uint64_t z = rng_state;
  z = (z ^ (z >> 30)) * 0xBF58476D1CE4E5B9ull;
  z = (z ^ (z >> 27)) * 0x94D049BB133111EBull;
  return z ^ (z >> 31);
}

// one managed SwissString against std::string: same contents after every operation; clear keeps the buffer;
// recreate keeps the capacity; after the first recreate the repeated workload takes nothing from the resource
static void run_s(const std::string& id, size_t itv, int cycles, uint64_t seed) {
  bool std_eq = true, fresh = true, acc_ok = true, keep = true, rebuilt_cap = true, no_growth = true;
  int first_bad = -1;
  std::string out = id;
  {
    SwissManager manager;
    manager.set_recreate_interval(itv);
    auto acc = manager.create_object<SwissString>();
    size_t max_cap = 0, since = 0;
    int first_recreate = -1;
    for (int c = 1; c <= cycles; ++c) {
      if (!acc || !manager.resource().contains(acc.get())) { acc_ok = false; break; }
      SwissString& s = *acc;
      std::string r;
      rng_state = seed;   // the same workload every cycle
      size_t used0 = manager.resource().space_used();
      int nops = 4 + (int)(rnd() % 12);
      for (int i = 0; i < nops; ++i) {
        unsigned k = (unsigned)(rnd() % 10);
        size_t n = rnd() % 40;
        char ch = (char)('a' + rnd() % 26);
        size_t pos = r.empty() ? 0 : rnd() % (r.size() + 1);
        switch (k) {
          case 0: s.assign(n, ch); r.assign(n, ch); break;
          case 1: s.append(n, ch); r.append(n, ch); break;
          case 2: s.push_back(ch); r.push_back(ch); break;
          case 3: s.insert(pos, n % 7, ch); r.insert(pos, n % 7, ch); break;
          case 4: { size_t len = rnd() % 5; s.erase(pos, len); r.erase(pos, len); break; }
          case 5: s.resize(n, ch); r.resize(n, ch); break;
          case 6: {   // assignment from a foreign-allocator string, with embedded NULs in most cases
            std::string t(n, ch);
            if (n > 0 && rnd() % 4) t[rnd() % n] = '\0';
            if (n > 3 && rnd() % 2) t[n / 2] = '\0', t[n - 1] = '\0';
            s = t; r = t;
            // a new string constructed from the same value on the same resource (constructor path)
            SwissMemoryResource scratch;   // not the managed resource: its space_used is being monitored
            SwissString fresh(t, SwissAllocator<char> {scratch});
            if (fresh.size() != t.size() || memcmp(fresh.data(), t.data(), t.size()) != 0) { if (std_eq) first_bad = i; std_eq = false; }
            MonotonicString ms(t, MonotonicAllocator<char> {*static_cast<MonotonicBufferResource*>(&scratch)});
            ms = t;
            if (ms.size() != t.size() || memcmp(ms.data(), t.data(), t.size()) != 0) { if (std_eq) first_bad = i; std_eq = false; }
            break;
          }
          case 7: s.reserve(n); r.reserve(n); break;
          case 8: if (!r.empty()) { s.pop_back(); r.pop_back(); } break;
          default: { std::string t(n % 9, ch); s += t.c_str(); r += t; break; }
        }
        if (!(s.size() == r.size() && memcmp(s.data(), r.data(), r.size()) == 0 && s.c_str()[s.size()] == 0)) {
          if (std_eq) first_bad = i;
          std_eq = false;
        }
      }
      size_t used1 = manager.resource().space_used();
      if (first_recreate > 0 && c > first_recreate && used1 != used0) no_growth = false;
      size_t cap1 = s.capacity();
      const char* d1 = s.data();
      if (cap1 > max_cap) max_cap = cap1;
      out += " W=" + std::to_string(s.size()) + "/" + std::to_string(cap1);
      manager.clear();
      ++since;
      bool expect_recreate = since >= itv;
      if (expect_recreate) since = 0;
      if (!acc || !manager.resource().contains(acc.get())) { acc_ok = false; break; }
      SwissString& w = *acc;
      if (!w.empty() || w.c_str()[0] != 0) fresh = false;
      if (expect_recreate) {
        if (first_recreate < 0) first_recreate = c;
        if (w.capacity() < max_cap) rebuilt_cap = false;
      } else if (w.capacity() < cap1 || w.data() != d1) keep = false;
      out += " C=" + std::to_string(w.size()) + "/" + std::to_string(w.capacity());
    }
  }
  printf("%s | std_eq=%d fresh=%d acc_ok=%d keep=%d rebuilt_cap=%d no_growth=%d first_bad=%d\n", out.c_str(), std_eq, fresh,
         acc_ok, keep, rebuilt_cap, no_growth, first_bad);
}

int main() {
  init_tables();
  std::string line;
  while (std::getline(std::cin, line)) {
    std::istringstream is(line);
    std::string id, mode, ty;
    if (!(is >> id >> mode)) continue;
    if (mode == "S") {
      size_t itv; int cycles; uint64_t seed;
      is >> itv >> cycles >> seed;
      run_s(id, itv, cycles, seed);
      fflush(stdout);
      continue;
    }
    is >> ty;
    size_t itv = 0; int cycles = 0;
    if (mode == "M") is >> itv >> cycles;
    std::vector<std::string> toks;
    std::string t;
    while (is >> t) toks.push_back(t);
    if (mode == "V" || mode == "A") {   // A: operations whose argument aliases an element (not given to the model)
      if (ty == "i") run_v<int>(id, toks);
      else if (ty == "c") run_v<Counting>(id, toks);
      else if (ty == "s") run_v<SwissString>(id, toks);
      else if (ty == "b") run_v<RawString>(id, toks);
      else if (ty == "n") run_v<SwissVector<int>>(id, toks);
    } else if (mode == "M") {
      if (ty == "i") run_m<int>(id, itv, cycles, toks);
      else if (ty == "c") run_m<Counting>(id, itv, cycles, toks);
      else if (ty == "s") run_m<SwissString>(id, itv, cycles, toks);
      else if (ty == "n") run_m<SwissVector<int>>(id, itv, cycles, toks);
    }
    fflush(stdout);
  }
  return 0;
}
