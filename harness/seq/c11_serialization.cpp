// C11 sequential driver: the real babylon::Serialization templates instantiated on a fixed family of types.
// stdin, one case per line (values/types in the syntax of ocaml/se_driver.ml):
//   <id> V <type> <pmask> <value> ; <model hex>  serialize a typed value, parse it back through the presentations
//   <id> D <type> <pmask> <hex>               parse arbitrary bytes (flat array, plus the presentations in pmask)
//        presentations: 0 flat array, 1 string, 2 stream of 1-byte chunks, 3 stream of random chunks,
//        4 stream of random chunks under an enclosing limit, 5 stream of 3-byte chunks (2, 3, 5: no limit)
//   <id> R <type> <value1> ; <value2>         serialize, overwrite the same object in place, serialize again
//   <id> C <mask> <seed> <value of CObj>      protobuf interoperability against the generated message c11::CMsg
// stdout: "<id> key=value ... | monitor=0/1 ..." ; the check script compares with the model and judges.
// The process limits its address space (unless C11_NO_RLIMIT) and arms an alarm per case: some inputs never return.
#include "babylon/serialization.h"

#include "c11_compat.pb.h"

#include <google/protobuf/io/zero_copy_stream.h>
#include <sys/resource.h>
#include <unistd.h>

#include <cstdio>
#include <cstdlib>
#include <cstring>
#include <list>
#include <map>
#include <memory>
#include <string>
#include <tuple>
#include <unordered_map>
#include <unordered_set>
#include <vector>

using ::babylon::Serialization;
using ::google::protobuf::io::CodedInputStream;
using ::google::protobuf::io::CodedOutputStream;

// ------------------------------------------------------------------ tokens, hex
struct Tok {
  std::vector<std::string> t;
  size_t i {0};
  const std::string& next() {
    static const std::string empty;
    return i < t.size() ? t[i++] : empty;
  }
  const std::string& peek() const {
    static const std::string empty;
    return i < t.size() ? t[i] : empty;
  }
};
static std::string hex(const std::string& s) {
  static const char* d = "0123456789abcdef";
  std::string o;
  for (unsigned char c : s) {
    o += d[c >> 4];
    o += d[c & 15];
  }
  return o;
}
static std::string unhex(const std::string& h) {
  std::string o;
  auto v = [](char c) { return c <= '9' ? c - '0' : (c | 32) - 'a' + 10; };
  for (size_t i = 0; i + 1 < h.size(); i += 2) o += (char)(v(h[i]) * 16 + v(h[i + 1]));
  return o;
}

// ------------------------------------------------------------------ generic value reader / printer
template <typename T, typename E = void>
struct IO;

template <typename T>
struct IO<T, std::enable_if_t<std::is_integral<T>::value>> {
  static void build(Tok& k, T& x) {
    const std::string& s = k.next();
    if (!s.empty() && s[0] == '-') x = (T)strtoll(s.c_str(), nullptr, 10);
    else x = (T)strtoull(s.c_str(), nullptr, 10);
  }
  static void show(const T& x, std::string& o) {
    if (std::is_signed<T>::value) o += std::to_string((long long)x);
    else o += std::to_string((unsigned long long)x);
  }
};
template <typename T>
struct IO<T, std::enable_if_t<std::is_enum<T>::value>> {
  using U = typename std::underlying_type<T>::type;
  static void build(Tok& k, T& x) {
    U u;
    IO<U>::build(k, u);
    x = static_cast<T>(u);
  }
  static void show(const T& x, std::string& o) { IO<U>::show(static_cast<U>(x), o); }
};
template <>
struct IO<float> {
  static void build(Tok& k, float& x) {
    uint32_t u = (uint32_t)strtoull(k.next().c_str(), nullptr, 10);
    memcpy(&x, &u, 4);
  }
  static void show(const float& x, std::string& o) {
    uint32_t u;
    memcpy(&u, &x, 4);
    o += std::to_string(u);
  }
};
template <>
struct IO<double> {
  static void build(Tok& k, double& x) {
    uint64_t u = strtoull(k.next().c_str(), nullptr, 10);
    memcpy(&x, &u, 8);
  }
  static void show(const double& x, std::string& o) {
    uint64_t u;
    memcpy(&u, &x, 8);
    o += std::to_string(u);
  }
};
template <>
struct IO<std::string> {
  static void build(Tok& k, std::string& x) { x = unhex(k.next().substr(1)); }
  static void show(const std::string& x, std::string& o) { o += "s" + hex(x); }
};
template <typename C, typename T>
static void build_seq(Tok& k, C& x) {
  x.clear();
  k.next();  // [
  while (k.peek() != "]" && !k.peek().empty()) {
    x.emplace_back();
    IO<T>::build(k, x.back());
  }
  k.next();
}
template <typename C, typename T>
static void show_seq(const C& x, std::string& o) {
  o += "[ ";
  for (const auto& e : x) {
    IO<T>::show(e, o);
    o += " ";
  }
  o += "]";
}
template <typename T, typename A>
struct IO<std::vector<T, A>> {
  static void build(Tok& k, std::vector<T, A>& x) { build_seq<std::vector<T, A>, T>(k, x); }
  static void show(const std::vector<T, A>& x, std::string& o) { show_seq<std::vector<T, A>, T>(x, o); }
};
template <typename A>
struct IO<std::vector<bool, A>> {
  static void build(Tok& k, std::vector<bool, A>& x) {
    x.clear();
    k.next();
    while (k.peek() != "]" && !k.peek().empty()) x.push_back(k.next() != "0");
    k.next();
  }
  static void show(const std::vector<bool, A>& x, std::string& o) {
    o += "[ ";
    for (bool e : x) o += e ? "1 " : "0 ";
    o += "]";
  }
};
template <typename T>
struct IO<std::list<T>> {
  static void build(Tok& k, std::list<T>& x) { build_seq<std::list<T>, T>(k, x); }
  static void show(const std::list<T>& x, std::string& o) { show_seq<std::list<T>, T>(x, o); }
};
template <typename T>
struct IO<std::unordered_set<T>> {
  static void build(Tok& k, std::unordered_set<T>& x) {
    x.clear();
    k.next();
    while (k.peek() != "]" && !k.peek().empty()) {
      T e {};
      IO<T>::build(k, e);
      x.emplace(std::move(e));
    }
    k.next();
  }
  static void show(const std::unordered_set<T>& x, std::string& o) { show_seq<std::unordered_set<T>, T>(x, o); }
};
template <typename K, typename V>
struct IO<std::unordered_map<K, V>> {
  static void build(Tok& k, std::unordered_map<K, V>& x) {
    x.clear();
    k.next();
    while (k.peek() != "]" && !k.peek().empty()) {
      k.next();  // [
      K key {};
      V val {};
      IO<K>::build(k, key);
      IO<V>::build(k, val);
      k.next();  // ]
      x.emplace(std::move(key), std::move(val));
    }
    k.next();
  }
  static void show(const std::unordered_map<K, V>& x, std::string& o) {
    o += "[ ";
    for (const auto& e : x) {
      o += "[ ";
      IO<K>::show(e.first, o);
      o += " ";
      IO<V>::show(e.second, o);
      o += " ] ";
    }
    o += "]";
  }
};
template <typename P, typename T>
static void build_ptr(Tok& k, P& x) {
  if (k.next() == "N") {
    x.reset();
  } else {
    x.reset(new T {});
    IO<T>::build(k, *x);
  }
}
template <typename P, typename T>
static void show_ptr(const P& x, std::string& o) {
  if (!x) {
    o += "N";
  } else {
    o += "P ";
    IO<T>::show(*x, o);
  }
}
template <typename T>
struct IO<std::unique_ptr<T>> {
  static void build(Tok& k, std::unique_ptr<T>& x) { build_ptr<std::unique_ptr<T>, T>(k, x); }
  static void show(const std::unique_ptr<T>& x, std::string& o) { show_ptr<std::unique_ptr<T>, T>(x, o); }
};
template <typename T>
struct IO<std::shared_ptr<T>> {
  static void build(Tok& k, std::shared_ptr<T>& x) { build_ptr<std::shared_ptr<T>, T>(k, x); }
  static void show(const std::shared_ptr<T>& x, std::string& o) { show_ptr<std::shared_ptr<T>, T>(x, o); }
};
template <typename T, size_t N>
struct IO<T[N]> {
  static void build(Tok& k, T (&x)[N]) {
    k.next();
    for (size_t i = 0; i < N; ++i) IO<T>::build(k, x[i]);
    k.next();
  }
  static void show(const T (&x)[N], std::string& o) {
    o += "[ ";
    for (size_t i = 0; i < N; ++i) {
      IO<T>::show(x[i], o);
      o += " ";
    }
    o += "]";
  }
};
// aggregates expose their serialized members (base first) through tie()
template <typename T>
struct IO<T, std::enable_if_t<(sizeof(decltype(std::declval<T&>().tie())) > 0) && std::is_class<T>::value>> {
  template <typename U>
  static void build_one(Tok& k, U& u) { IO<U>::build(k, u); }
  template <typename U>
  static void show_one(const U& u, std::string& o) {
    IO<U>::show(u, o);
    o += " ";
  }
  static void build(Tok& k, T& x) {
    k.next();
    std::apply([&](auto&... f) { (build_one(k, f), ...); }, x.tie());
    k.next();
  }
  static void show(const T& x, std::string& o) {
    o += "[ ";
    std::apply([&](const auto&... f) { (show_one(f, o), ...); }, const_cast<T&>(x).tie());
    o += "]";
  }
};
template <>
struct IO<c11::Small> {
  static void build(Tok& k, c11::Small& x) {
    x.Clear();
    k.next();
    int32_t a;
    std::string s;
    IO<int32_t>::build(k, a);
    IO<std::string>::build(k, s);
    x.set_a(a);
    if (!s.empty()) x.set_s(s);
    k.next();
  }
  static void show(const c11::Small& x, std::string& o) {
    o += "[ ";
    IO<int32_t>::show(x.a(), o);
    o += " ";
    IO<std::string>::show(x.s(), o);
    o += " ]";
  }
};

// ------------------------------------------------------------------ the type family
enum CEnum : int32_t { CE0 = 0, CE1 = 1, CE2 = 2, CEN = -5, CEBIG = 100000 };
// enums of every underlying width (every value of the underlying type is a valid value)
enum class E8 : int8_t { Z = 0 };
enum class EU8 : uint8_t { Z = 0 };
enum class EU32 : uint32_t { Z = 0 };
enum class E64 : int64_t { Z = 0 };
enum class EU64 : uint64_t { Z = 0 };

#define TIE(...)                                   \
  auto tie() { return std::tie(__VA_ARGS__); }

struct Inner {
  int32_t a {0};
  std::string s;
  BABYLON_COMPATIBLE((a, 1)(s, 2))
  TIE(a, s)
};
struct OnlyStr {
  std::string s;
  std::vector<int32_t> v;
  BABYLON_COMPATIBLE((s, 1)(v, 2))
  TIE(s, v)
};
struct Ptrs {
  std::unique_ptr<std::string> us;
  std::unique_ptr<int32_t> ui;
  std::shared_ptr<Inner> si;
  std::vector<std::unique_ptr<Inner>> vi;
  std::shared_ptr<OnlyStr> so;
  std::unique_ptr<OnlyStr> uo;
  std::vector<std::shared_ptr<std::string>> vs;
  BABYLON_COMPATIBLE((us, 1)(ui, 2)(si, 3)(vi, 4)(so, 5)(uo, 6)(vs, 7))
  TIE(us, ui, si, vi, so, uo, vs)
};
struct AggVupi {  // a container of smart pointers to scalars as a member (outside ty_ok of the model)
  std::vector<std::unique_ptr<int32_t>> v;
  int32_t x {0};
  BABYLON_COMPATIBLE((v, 1)(x, 2))
  TIE(v, x)
};
struct Enums {  // enums as members, in containers (elements, map keys and values) and behind smart pointers
  E8 a {E8::Z};
  EU8 b {EU8::Z};
  CEnum c {CE0};
  EU32 d {EU32::Z};
  E64 e {E64::Z};
  EU64 f {EU64::Z};
  std::vector<E64> ve;
  EU64 ae[2];
  std::unordered_map<EU64, E64> m;
  std::unique_ptr<E64> p;
  std::shared_ptr<EU64> sp;
  std::list<EU32> le;
  BABYLON_COMPATIBLE((a, 1)(b, 2)(c, 3)(d, 4)(e, 5)(f, 6)(ve, 7)(ae, 8)(m, 9)(p, 10)(sp, 11)(le, 12))
  TIE(a, b, c, d, e, f, ve, ae, m, p, sp, le)
};
// smart pointers to fixed-width scalars (TRIVIAL size complexity inherited from the pointee) in containers
struct PF {
  std::unique_ptr<float> p;
  BABYLON_COMPATIBLE((p, 1))
  TIE(p)
};
struct HoldPF {
  std::vector<PF> v;
  int32_t x {0};
  std::shared_ptr<double> a[2];
  BABYLON_COMPATIBLE((v, 1)(x, 2)(a, 3))
  TIE(v, x, a)
};
// aggregates deriving from a serializable container / aggregate, with 0..2 own fields
using VecS = std::vector<std::string>;
using ListI = std::list<int32_t>;
using MapSI = std::unordered_map<std::string, int32_t>;
struct DVec : public VecS {
  int32_t x {0};
  BABYLON_COMPATIBLE_WITH_BASE((VecS, 1), (x, 2))
  auto tie() { return std::tie(static_cast<VecS&>(*this), x); }
};
struct DVec0 : public VecS {
  BABYLON_COMPATIBLE_WITH_BASE((VecS, 1))
  auto tie() { return std::tie(static_cast<VecS&>(*this)); }
};
struct DList : public ListI {
  std::string s;
  int64_t y {0};
  BABYLON_COMPATIBLE_WITH_BASE((ListI, 3), (s, 1)(y, 2))
  auto tie() { return std::tie(static_cast<ListI&>(*this), s, y); }
};
struct DMap : public MapSI {
  int32_t x {0};
  BABYLON_COMPATIBLE_WITH_BASE((MapSI, 1), (x, 2))
  auto tie() { return std::tie(static_cast<MapSI&>(*this), x); }
};
struct DOnly : public OnlyStr {
  BABYLON_COMPATIBLE_WITH_BASE((OnlyStr, 4))
  auto tie() { return std::tie(static_cast<OnlyStr&>(*this)); }
};
struct Arr {
  int32_t a[3];
  Inner as[2];
  float fa[2];
  std::string sa[2];
  BABYLON_COMPATIBLE((a, 1)(as, 2)(fa, 3)(sa, 4))
  TIE(a, as, fa, sa)
};
struct Derived : public Inner {
  int64_t x {0};
  std::vector<Inner> vi;
  BABYLON_COMPATIBLE_WITH_BASE((Inner, 1), (x, 5)(vi, 7))
  auto tie() { return std::tie(static_cast<Inner&>(*this), x, vi); }
};
struct Auto {
  uint32_t a {0};
  std::string s;
  std::vector<int64_t> v;
  BABYLON_SERIALIZABLE(a, s, v)
  TIE(a, s, v)
};
struct Big {  // >= 10 members of O(1) size: the total is cached in the object
  bool f1 {false};
  int8_t f2 {0};
  int16_t f3 {0};
  int32_t f4 {0};
  int64_t f5 {0};
  uint8_t f6 {0};
  uint16_t f7 {0};
  uint32_t f8 {0};
  uint64_t f9 {0};
  CEnum f10 {CE0};
  std::string f11;
  double f12 {0};
  BABYLON_COMPATIBLE((f1, 1)(f2, 2)(f3, 3)(f4, 4)(f5, 15)(f6, 16)(f7, 17)(f8, 2047)(f9, 2048)(f10, 300000)(f11, 536870911)(f12, 20))
  TIE(f1, f2, f3, f4, f5, f6, f7, f8, f9, f10, f11, f12)
};
struct Nest {  // members with cached sizes, nested
  Big b;
  std::vector<Big> vb;
  Inner i;
  std::unordered_map<std::string, Inner> m;
  std::vector<std::vector<std::string>> vv;
  std::list<OnlyStr> lo;
  BABYLON_COMPATIBLE((b, 1)(vb, 2)(i, 3)(m, 4)(vv, 5)(lo, 6))
  TIE(b, vb, i, m, vv, lo)
};
struct WithMsg {  // protobuf messages as members
  c11::Small m;
  int32_t x {0};
  std::unique_ptr<c11::Small> pm;
  std::vector<c11::Small> vm;
  BABYLON_COMPATIBLE((m, 1)(x, 2)(pm, 3)(vm, 4))
  TIE(m, x, pm, vm)
};
#define COMPAT_SCALARS                                                                                      \
  bool b {false};                                                                                           \
  int8_t i8 {0};                                                                                            \
  int16_t i16 {0};                                                                                          \
  int32_t i32 {0};                                                                                          \
  int64_t i64 {0};                                                                                          \
  uint8_t u8 {0};                                                                                           \
  uint16_t u16 {0};                                                                                         \
  uint32_t u32 {0};                                                                                         \
  uint64_t u64 {0};                                                                                         \
  float f {0};                                                                                              \
  double d {0};                                                                                             \
  CEnum e {CE0};                                                                                            \
  std::string s;                                                                                            \
  std::string by;
#define COMPAT_REPEATED          \
  std::vector<bool> rpb;         \
  std::vector<int32_t> rpi32;    \
  std::vector<int64_t> rpi64;    \
  std::vector<uint32_t> rpu32;   \
  std::vector<uint64_t> rpu64;   \
  std::vector<float> rpf;        \
  std::vector<double> rpd;       \
  std::vector<CEnum> rpe;
struct CSub {
  COMPAT_SCALARS
  COMPAT_REPEATED
  BABYLON_COMPATIBLE((b, 1)(i8, 2)(i16, 3)(i32, 4)(i64, 5)(u8, 6)(u16, 7)(u32, 8)(u64, 9)(f, 16)(d, 17)(e, 18)(s, 19)(by, 20)(rpb, 44)(rpi32, 47)(rpi64, 48)(rpu32, 51)(rpu64, 52)(rpf, 59)(rpd, 60)(rpe, 61))
  TIE(b, i8, i16, i32, i64, u8, u16, u32, u64, f, d, e, s, by, rpb, rpi32, rpi64, rpu32, rpu64, rpf, rpd, rpe)
};
struct CObj {
  COMPAT_SCALARS
  CSub m;
  COMPAT_REPEATED
  BABYLON_COMPATIBLE((b, 1)(i8, 2)(i16, 3)(i32, 4)(i64, 5)(u8, 6)(u16, 7)(u32, 8)(u64, 9)(f, 16)(d, 17)(e, 18)(s, 19)(by, 20)(m, 21)(rpb, 44)(rpi32, 47)(rpi64, 48)(rpu32, 51)(rpu64, 52)(rpf, 59)(rpd, 60)(rpe, 61))
  TIE(b, i8, i16, i32, i64, u8, u16, u32, u64, f, d, e, s, by, m, rpb, rpi32, rpi64, rpu32, rpu64, rpf, rpd, rpe)
};

// ------------------------------------------------------------------ presentations of the input bytes
class ChunkStream : public ::google::protobuf::io::ZeroCopyInputStream {
 public:
  ChunkStream(const char* data, size_t n, int fixed, uint64_t seed) : _d(data), _n(n), _fixed(fixed), _s(seed) {}
  bool Next(const void** data, int* size) override {
    if (_pos >= _n) return false;
    size_t k = _fixed > 0 ? (size_t)_fixed : 1 + rnd() % 7;
    if (k > _n - _pos) k = _n - _pos;
    *data = _d + _pos;
    *size = (int)k;
    _pos += k;
    return true;
  }
  void BackUp(int count) override { _pos -= (size_t)count; }
  bool Skip(int count) override {
    if ((size_t)count > _n - _pos) {
      _pos = _n;
      return false;
    }
    _pos += (size_t)count;
    return true;
  }
  int64_t ByteCount() const override { return (int64_t)_pos; }

 private:
  uint64_t rnd() {
    _s += 0x9E3779B97F4A7C15ull;
    uint64_t z = _s;
    z = (z ^ (z >> 30)) * 0xBF58476D1CE4E5B9ull;
    z = (z ^ (z >> 27)) * 0x94D049BB133111EBull;
    return z ^ (z >> 31);
  }
  const char* _d;
  size_t _n;
  int _fixed;
  uint64_t _s;
  size_t _pos {0};
};

enum { P_ARRAY = 0, P_STRING = 1, P_CHUNK1 = 2, P_CHUNKR = 3, P_CHUNKLIM = 4, P_UNLIMITED = 5 };

template <typename T>
static bool parse_as(int pres, const std::string& bytes, T& y, uint64_t seed) {
  // an exactly sized heap copy, so that a sanitizer sees any read outside the input
  std::unique_ptr<char[]> buf(new char[bytes.size()]);
  memcpy(buf.get(), bytes.data(), bytes.size());
  switch (pres) {
    case P_ARRAY:
      return Serialization::parse_from_array(buf.get(), bytes.size(), y);
    case P_STRING:
      return Serialization::parse_from_string(bytes, y);
    default: {
      ChunkStream zs(buf.get(), bytes.size(), pres == P_CHUNK1 ? 1 : (pres == P_UNLIMITED ? 3 : 0), seed);
      CodedInputStream cis(&zs);
      if (pres == P_CHUNKLIM) {
        auto l = cis.PushLimit((int)bytes.size());
        bool ok = Serialization::parse_from_coded_stream(cis, y);
        cis.PopLimit(l);
        return ok;
      }
      return Serialization::parse_from_coded_stream(cis, y);
    }
  }
}

template <typename T>
static std::string show(const T& x) {
  std::string o;
  IO<T>::show(x, o);
  return o;
}
template <typename T>
static std::string parse_show(int pres, const std::string& bytes, uint64_t seed) {
  std::unique_ptr<T> y(new T {});
  bool ok = parse_as(pres, bytes, *y, seed);
  return ok ? "1:" + show(*y) : std::string("0:-");
}
static uint64_t hash_id(const std::string& s) {
  uint64_t h = 1469598103934665603ull;
  for (unsigned char c : s) h = (h ^ c) * 1099511628211ull;
  return h;
}

// ------------------------------------------------------------------ operations
struct OpsBase {
  virtual ~OpsBase() {}
  virtual void run_v(const std::string& id, unsigned pmask, Tok& k) = 0;
  virtual void run_d(const std::string& id, unsigned pmask, const std::string& bytes) = 0;
  virtual void run_r(const std::string& id, Tok& k) = 0;
};

template <typename T>
struct Ops : public OpsBase {
  void run_v(const std::string& id, unsigned pmask, Tok& k) override {
    // first of all: a pristine object serialized without any size calculation before it
    size_t mark = k.i;
    std::string ser0;
    {
      std::unique_ptr<T> x0(new T {});
      IO<T>::build(k, *x0);
      Serialization::serialize_to_string(*x0, ser0);
    }
    k.i = mark;
    std::unique_ptr<T> x(new T {});
    IO<T>::build(k, *x);
    k.next();  // ;
    std::string model_bytes = unhex(k.next());
    size_t pred = Serialization::calculate_serialized_size(*x);
    std::string ser;
    bool serok = Serialization::serialize_to_string(*x, ser);
    // second route: size first, then into an exactly sized array with the cached sizes
    size_t pred2 = Serialization::calculate_serialized_size(*x);
    std::string ser2(pred2, '\0');
    bool serok2 = Serialization::serialize_to_array_with_cached_size(*x, &ser2[0], pred2);
    // third route: a coded stream over tiny output chunks
    std::string ser3;
    {
      ::google::protobuf::io::StringOutputStream ss(&ser3);
      CodedOutputStream cos(&ss);
      serok2 = Serialization::serialize_to_coded_stream(*x, cos) && serok2;
    }
    uint64_t seed = hash_id(id);
    printf("%s ser=%s serok=%d pred=%zu val=%s", id.c_str(), hex(ser).c_str(), serok ? 1 : 0, pred, show(*x).c_str());
    for (int p = P_ARRAY; p <= P_UNLIMITED; ++p)
      if ((pmask >> p) & 1) printf(" p%d=%s", p, parse_show<T>(p, ser, seed).c_str());
    printf(" pm=%s", parse_show<T>(P_ARRAY, model_bytes, seed).c_str());
    printf(" ser0=%s | mon_size=%d mon_routes=%d mon_fresh=%d\n", hex(ser0).c_str(), (serok && pred == ser.size()) ? 1 : 0,
           (serok2 && ser2 == ser && ser3 == ser) ? 1 : 0, ser0 == ser ? 1 : 0);
  }
  void run_d(const std::string& id, unsigned pmask, const std::string& bytes) override {
    uint64_t seed = hash_id(id);
    std::unique_ptr<T> y(new T {});
    bool ok = parse_as(P_ARRAY, bytes, *y, seed);
    if (!ok) {
      printf("%s res=0:-", id.c_str());
    } else {
      std::string v = show(*y);
      size_t pred = Serialization::calculate_serialized_size(*y);
      std::string reser;
      bool serok = Serialization::serialize_to_string(*y, reser);
      std::string re = parse_show<T>(P_ARRAY, reser, seed);
      printf("%s res=1:%s reser=%s resize=%zu serok=%d re=%s", id.c_str(), v.c_str(), hex(reser).c_str(), pred,
             serok ? 1 : 0, re.c_str());
    }
    for (int p = P_STRING; p <= P_UNLIMITED; ++p)
      if ((pmask >> p) & 1) printf(" p%d=%s", p, parse_show<T>(p, bytes, seed).c_str());
    printf(" | returned=1\n");
  }
  void run_r(const std::string& id, Tok& k) override {
    std::unique_ptr<T> x(new T {});
    IO<T>::build(k, *x);
    k.next();  // ;
    std::string ser1;
    Serialization::serialize_to_string(*x, ser1);
    size_t mark = k.i;
    IO<T>::build(k, *x);  // overwrite in place
    size_t pred = Serialization::calculate_serialized_size(*x);
    std::string ser;
    bool serok = Serialization::serialize_to_string(*x, ser);
    k.i = mark;
    std::unique_ptr<T> f(new T {});
    IO<T>::build(k, *f);
    std::string fresh;
    Serialization::serialize_to_string(*f, fresh);
    printf("%s ser1=%s ser=%s serok=%d pred=%zu fresh=%s re=%s | mon_reuse=%d mon_size=%d\n", id.c_str(),
           hex(ser1).c_str(), hex(ser).c_str(), serok ? 1 : 0, pred, hex(fresh).c_str(),
           parse_show<T>(P_ARRAY, ser, 0).c_str(), ser == fresh ? 1 : 0, pred == ser.size() ? 1 : 0);
  }
};

// ------------------------------------------------------------------ protobuf interoperability
static void fill_msg(const CSub& x, c11::CMsg& m);
template <typename S>
static void fill_common(const S& x, c11::CMsg& m, uint32_t mask) {
  int bit = 0;
  auto on = [&]() { return ((mask >> (bit++)) & 1) != 0; };
  if (on()) m.set_b(x.b);
  if (on()) m.set_i8(x.i8);
  if (on()) m.set_i16(x.i16);
  if (on()) m.set_i32(x.i32);
  if (on()) m.set_i64(x.i64);
  if (on()) m.set_u8(x.u8);
  if (on()) m.set_u16(x.u16);
  if (on()) m.set_u32(x.u32);
  if (on()) m.set_u64(x.u64);
  if (on()) m.set_f(x.f);
  if (on()) m.set_d(x.d);
  if (on()) m.set_e((c11::CEnum)x.e);
  if (on()) m.set_s(x.s);
  if (on()) m.set_by(x.by);
  if (on()) for (bool v : x.rpb) m.add_rpb(v);
  if (on()) for (auto v : x.rpi32) m.add_rpi32(v);
  if (on()) for (auto v : x.rpi64) m.add_rpi64(v);
  if (on()) for (auto v : x.rpu32) m.add_rpu32(v);
  if (on()) for (auto v : x.rpu64) m.add_rpu64(v);
  if (on()) for (auto v : x.rpf) m.add_rpf(v);
  if (on()) for (auto v : x.rpd) m.add_rpd(v);
  if (on()) for (auto v : x.rpe) m.add_rpe((c11::CEnum)v);
}
template <typename S>
static void read_common(const c11::CMsg& m, S& x) {
  x.b = m.b();
  x.i8 = (int8_t)m.i8();
  x.i16 = (int16_t)m.i16();
  x.i32 = m.i32();
  x.i64 = m.i64();
  x.u8 = (uint8_t)m.u8();
  x.u16 = (uint16_t)m.u16();
  x.u32 = m.u32();
  x.u64 = m.u64();
  x.f = m.f();
  x.d = m.d();
  x.e = (CEnum)m.e();
  x.s = m.s();
  x.by = m.by();
  for (auto v : m.rpb()) x.rpb.push_back(v);
  for (auto v : m.rpi32()) x.rpi32.push_back(v);
  for (auto v : m.rpi64()) x.rpi64.push_back(v);
  for (auto v : m.rpu32()) x.rpu32.push_back(v);
  for (auto v : m.rpu64()) x.rpu64.push_back(v);
  for (auto v : m.rpf()) x.rpf.push_back(v);
  for (auto v : m.rpd()) x.rpd.push_back(v);
  for (auto v : m.rpe()) x.rpe.push_back((CEnum)v);
}
static bool read_varint(const std::string& s, size_t& p, uint64_t& v) {
  v = 0;
  for (int sh = 0; sh < 70 && p < s.size(); sh += 7) {
    unsigned char c = (unsigned char)s[p++];
    v |= (uint64_t)(c & 127) << sh;
    if (c < 128) return true;
  }
  return false;
}
// split an encoded message into its top level fields
static bool split_fields(const std::string& s, std::vector<std::string>& out) {
  size_t p = 0;
  while (p < s.size()) {
    size_t b = p;
    uint64_t tag, len;
    if (!read_varint(s, p, tag)) return false;
    switch (tag & 7) {
      case 0: if (!read_varint(s, p, len)) return false; break;
      case 1: p += 8; break;
      case 5: p += 4; break;
      case 2: if (!read_varint(s, p, len)) return false; p += len; break;
      default: return false;
    }
    if (p > s.size()) return false;
    out.push_back(s.substr(b, p - b));
  }
  return true;
}
static void run_c(const std::string& id, uint32_t mask, uint64_t seed, Tok& k) {
  std::unique_ptr<CObj> x(new CObj {});
  IO<CObj>::build(k, *x);
  // struct -> message
  std::string ser;
  Serialization::serialize_to_string(*x, ser);
  c11::CMsg m1;
  bool ok1 = m1.ParseFromString(ser);
  bool known = ok1 && m1.unknown_fields().empty() && m1.m().unknown_fields().empty();
  CObj back {};
  read_common(m1, back);
  read_common(m1.m(), back.m);
  // message -> struct : every field set
  c11::CMsg m2;
  fill_common(*x, m2, 0xFFFFFFFFu);
  fill_common(x->m, *m2.mutable_m(), 0xFFFFFFFFu);
  std::string ms = m2.SerializeAsString();
  std::string r_full = parse_show<CObj>(P_ARRAY, ms, seed);
  // message -> struct through Serialization (SerializeTraits<Message>)
  std::string ms2;
  bool okms2 = Serialization::serialize_to_string(m2, ms2);
  size_t predm = Serialization::calculate_serialized_size(m2);
  // unknown fields present
  c11::CMsg m3 = m2;
  m3.set_x_v(-7);
  m3.set_x_f32(0xdeadbeefu);
  m3.set_x_f64(0x0123456789abcdefull);
  m3.set_x_s(std::string("\x00\xff\x80unknown", 10));
  m3.mutable_x_m()->set_i32(5);
  m3.mutable_x_m()->mutable_m()->set_s("deep");
  m3.mutable_m()->set_x_v(9);
  m3.mutable_m()->set_x_s("zz");
  std::string r_unknown = parse_show<CObj>(P_ARRAY, m3.SerializeAsString(), seed);
  // any order of the fields
  std::vector<std::string> fs;
  bool split = split_fields(m3.SerializeAsString(), fs);
  uint64_t st = seed;
  for (size_t i = fs.size(); i > 1; --i) {
    st = st * 6364136223846793005ull + 1442695040888963407ull;
    std::swap(fs[i - 1], fs[(st >> 33) % i]);
  }
  std::string shuffled;
  for (auto& f : fs) shuffled += f;
  std::string r_shuffled = split ? parse_show<CObj>(P_CHUNKR, shuffled, seed) : "0:-";
  // absent fields keep their defaults
  c11::CMsg m4;
  fill_common(*x, m4, mask);
  if ((mask >> 30) & 1) fill_common(x->m, *m4.mutable_m(), mask * 2654435761u);
  std::string ms4 = m4.SerializeAsString();
  std::string r_masked = parse_show<CObj>(P_ARRAY, ms4, seed);
  // message parsed by babylon into the message type itself
  c11::CMsg m5;
  bool ok5 = Serialization::parse_from_string(ms, m5);
  printf("%s val=%s ser=%s s2m=%d:%s msbytes=%s m2s=%s unknown=%s shuffled=%s maskbytes=%s masked=%s | mon_known=%d "
         "mon_msgser=%d mon_msgparse=%d\n",
         id.c_str(), show(*x).c_str(), hex(ser).c_str(), ok1 ? 1 : 0, show(back).c_str(), hex(ms).c_str(),
         r_full.c_str(), r_unknown.c_str(), r_shuffled.c_str(), hex(ms4).c_str(), r_masked.c_str(), known ? 1 : 0,
         (okms2 && ms2 == ms && predm == ms.size()) ? 1 : 0, (ok5 && m5.SerializeAsString() == ms) ? 1 : 0);
}

// ------------------------------------------------------------------ main
int main() {
  // a parser that loops without progress must not take the machine down: bounded address space (not under
  // ASan, which reserves terabytes: there ASAN_OPTIONS=hard_rss_limit_mb does it) and a per-case alarm
  if (getenv("C11_NO_RLIMIT") == nullptr) {
    struct rlimit rl;
    rl.rlim_cur = rl.rlim_max = 1024ull << 20;
    setrlimit(RLIMIT_AS, &rl);
  }
  unsigned alarm_s = getenv("C11_ALARM") != nullptr ? (unsigned)atoi(getenv("C11_ALARM")) : 8;
  std::map<std::string, OpsBase*> types;
#define REG(name, ...) types[name] = new Ops<__VA_ARGS__>();
  REG("b", bool)
  REG("i8", int8_t)
  REG("i16", int16_t)
  REG("i32", int32_t)
  REG("i64", int64_t)
  REG("u8", uint8_t)
  REG("u16", uint16_t)
  REG("u32", uint32_t)
  REG("u64", uint64_t)
  REG("en", CEnum)
  REG("en8", E8)
  REG("enu8", EU8)
  REG("enu32", EU32)
  REG("en64", E64)
  REG("enu64", EU64)
  REG("ven64", std::vector<E64>)
  REG("mapee", std::unordered_map<EU64, E64>)
  REG("upen64", std::unique_ptr<E64>)
  REG("enums", Enums)
  REG("f32", float)
  REG("f64", double)
  REG("str", std::string)
  REG("vi32", std::vector<int32_t>)
  REG("vu64", std::vector<uint64_t>)
  REG("vb", std::vector<bool>)
  REG("vf32", std::vector<float>)
  REG("vf64", std::vector<double>)
  REG("vstr", std::vector<std::string>)
  REG("vvi", std::vector<std::vector<int64_t>>)
  REG("lstr", std::list<std::string>)
  REG("lu32", std::list<uint32_t>)
  REG("seti", std::unordered_set<int64_t>)
  REG("sets", std::unordered_set<std::string>)
  REG("mapsi", std::unordered_map<std::string, int32_t>)
  REG("mapiv", std::unordered_map<int32_t, std::vector<std::string>>)
  REG("upi", std::unique_ptr<int32_t>)
  REG("ups", std::unique_ptr<std::string>)
  REG("spin", std::shared_ptr<Inner>)
  REG("spi64", std::shared_ptr<int64_t>)
  REG("sps", std::shared_ptr<std::string>)
  REG("upin", std::unique_ptr<Inner>)
  REG("vupi", std::vector<std::unique_ptr<int32_t>>)
  REG("vups", std::vector<std::unique_ptr<std::string>>)
  REG("inner", Inner)
  REG("onlystr", OnlyStr)
  REG("ptrs", Ptrs)
  REG("aggvupi", AggVupi)
  REG("vupf", std::vector<std::unique_ptr<float>>)
  REG("lspd", std::list<std::shared_ptr<double>>)
  REG("vpf", std::vector<PF>)
  REG("holdpf", HoldPF)
  REG("dvec", DVec)
  REG("dvec0", DVec0)
  REG("dlist", DList)
  REG("dmap", DMap)
  REG("donly", DOnly)
  REG("arr", Arr)
  REG("derived", Derived)
  REG("auto", Auto)
  REG("big", Big)
  REG("nest", Nest)
  REG("withmsg", WithMsg)
  REG("csub", CSub)
  REG("cobj", CObj)
  static char line[1 << 20];
  while (fgets(line, sizeof line, stdin)) {
    Tok k;
    for (char* p = strtok(line, " \t\r\n"); p != nullptr; p = strtok(nullptr, " \t\r\n")) k.t.emplace_back(p);
    if (k.t.size() < 2) continue;
    alarm(alarm_s);
    std::string id = k.next();
    std::string op = k.next();
    if (op == "C") {
      uint32_t mask = (uint32_t)strtoull(k.next().c_str(), nullptr, 10);
      uint64_t seed = strtoull(k.next().c_str(), nullptr, 10);
      run_c(id, mask, seed, k);
    } else {
      auto it = types.find(k.next());
      if (it == types.end()) {
        printf("%s ERROR unknown-type\n", id.c_str());
      } else if (op == "V") {
        unsigned pmask = (unsigned)strtoul(k.next().c_str(), nullptr, 10);
        it->second->run_v(id, pmask, k);
      } else if (op == "D") {
        unsigned pmask = (unsigned)strtoul(k.next().c_str(), nullptr, 10);
        it->second->run_d(id, pmask, unhex(k.next()));
      } else if (op == "R") {
        it->second->run_r(id, k);
      } else {
        printf("%s ERROR unknown-op\n", id.c_str());
      }
    }
    fflush(stdout);
  }
  return 0;
}
