// Deterministic scheduler (engine E4). See dsched.h.
#include "shim/dsched.h"

#include <dlfcn.h>
#include <errno.h>
#include <linux/futex.h>
#include <pthread.h>
#include <semaphore.h>
#include <stdarg.h>
#include <stdio.h>
#include <stdlib.h>
#include <string.h>
#include <sys/syscall.h>
#include <time.h>
#include <unistd.h>

#include <algorithm>
#include <map>
#include <set>

namespace verif {

namespace {

enum St { RUNNABLE, BLOCKED_FUTEX, SLEEPING, BLOCKED_MUTEX, BLOCKED_JOIN, FINISHED };
const char* st_name[] = {"runnable", "futex_wait", "sleep", "mutex", "join", "finished"};

struct Th {
  int id = 0;
  sem_t sem;
  St st = RUNNABLE;
  const void* wait_addr = nullptr;
  uint64_t deadline = UINT64_MAX;
  bool timed_out = false;
  bool spurious = false;
  uint64_t wait_seq = 0;
  int join_target = -1;
  int64_t prio = 0;
  pthread_t real {};
  std::function<void()> body;
  void* (*start)(void*) = nullptr;
  void* arg = nullptr;
  void* retval = nullptr;
  const char* last_file = "";
  int last_line = 0;
  int last_kind = 0;
};

struct State {
  std::vector<Th*> threads;
  Options opt;
  Result res;
  uint64_t rng = 0;
  uint64_t vtime = 0;
  uint64_t seq = 0;
  size_t choice_pos = 0;
  bool active = false;
  sem_t done;
  std::vector<uint64_t> pct_change;
  int64_t pct_low = 0;
  std::set<std::string> sites;
  std::map<pthread_t, int> by_real;
};

State G;
thread_local Th* me = nullptr;
thread_local bool in_sched = false;

uint64_t rnd() {
  G.rng += 0x9E3779B97F4A7C15ull;
  uint64_t z = G.rng;
  z = (z ^ (z >> 30)) * 0xBF58476D1CE4E5B9ull;
  z = (z ^ (z >> 27)) * 0x94D049BB133111EBull;
  return z ^ (z >> 31);
}

typedef int (*create_fn)(pthread_t*, const pthread_attr_t*, void* (*)(void*), void*);
typedef int (*join_fn)(pthread_t, void**);
create_fn real_create() {
  static create_fn f = (create_fn)dlsym(RTLD_NEXT, "pthread_create");
  return f;
}
join_fn real_join() {
  static join_fn f = (join_fn)dlsym(RTLD_NEXT, "pthread_join");
  return f;
}

std::string describe_blocked() {
  std::string s;
  char buf[512];
  for (auto t : G.threads) {
    snprintf(buf, sizeof buf, "t%d:%s@%s:%d ", t->id, st_name[t->st], t->last_file ? strrchr(t->last_file, '/') ? strrchr(t->last_file, '/') + 1 : t->last_file : "", t->last_line);
    s += buf;
  }
  return s;
}

[[noreturn]] void stuck(bool deadlock) {
  G.res.ok = false;
  G.res.deadlock = deadlock;
  G.res.livelock = !deadlock;
  G.res.blocked_report = describe_blocked();
  G.res.steps = G.res.steps;
  G.res.vtime_ns = G.vtime;
  // threads cannot be unwound: report and leave the process; the driver turns this into a replay file
  printf("DSCHED-STUCK %s seed=%llu strategy=%d steps=%llu vtime_ns=%llu threads=[%s] choices=", deadlock ? "deadlock" : "livelock",
         (unsigned long long)G.opt.seed, G.opt.strategy, (unsigned long long)G.res.steps,
         (unsigned long long)G.vtime, G.res.blocked_report.c_str());
  size_t n = G.res.choices.size();
  for (size_t i = 0; i < n && i < 4000; ++i) printf("%d%s", G.res.choices[i], i + 1 < n ? "," : "");
  printf("\n");
  fflush(stdout);
  _exit(3);
}

// choose among n options; records the decision when n > 1
size_t choose(size_t n, bool at_point_with_current_first) {
  if (n <= 1) return 0;
  size_t c = 0;
  switch (G.opt.strategy) {
    case 2:
      c = G.choice_pos < G.opt.choices.size() ? (size_t)G.opt.choices[G.choice_pos] : 0;
      if (c >= n) c = 0;
      break;
    case 3:
      if (at_point_with_current_first) {
        c = (rnd() % 1000 < (uint64_t)G.opt.preempt_per_mille) ? 1 + rnd() % (n - 1) : 0;
      } else {
        c = rnd() % n;
      }
      break;
    default:
      c = rnd() % n;
  }
  G.choice_pos++;
  G.res.choices.push_back((int)c);
  G.res.widths.push_back((int)n);
  return c;
}

void wake_due() {
  for (auto t : G.threads) {
    if ((t->st == SLEEPING || t->st == BLOCKED_FUTEX) && t->deadline <= G.vtime) {
      t->timed_out = true;
      t->st = RUNNABLE;
      t->deadline = UINT64_MAX;
    }
  }
}

// pick the next thread to run.  `cur` (may be null / not runnable) is listed first when runnable.
Th* pick(Th* cur, bool cur_yields) {
  G.res.steps++;
  if (G.res.steps > G.opt.max_steps) stuck(false);
  G.vtime += G.opt.step_ns;
  wake_due();
  if (G.opt.spurious_futex && (rnd() & 15) == 0) {
    // futex_wait may return without a wake (EINTR on a signal, or a plain spurious 0)
    std::vector<Th*> w;
    for (auto t : G.threads)
      if (t->st == BLOCKED_FUTEX) w.push_back(t);
    if (!w.empty()) {
      Th* t = w[rnd() % w.size()];
      t->st = RUNNABLE;
      t->spurious = true;
      t->deadline = UINT64_MAX;
    }
  }
  std::vector<Th*> r;
  if (cur && cur->st == RUNNABLE && !cur_yields) r.push_back(cur);
  for (auto t : G.threads)
    if (t->st == RUNNABLE && t != cur) r.push_back(t);
  if (r.empty() && cur && cur->st == RUNNABLE) {
    // the only runnable thread yields (poll loop with sched_yield) while the others sleep or wait with a deadline:
    // yielding lets the time pass - jump to the earliest deadline instead of burning the step budget 50 ns at a time
    if (cur_yields) {
      uint64_t dl = UINT64_MAX;
      for (auto t : G.threads)
        if ((t->st == SLEEPING || t->st == BLOCKED_FUTEX) && t->deadline < dl) dl = t->deadline;
      if (dl != UINT64_MAX && dl > G.vtime) {
        G.vtime = dl;
        wake_due();
        for (auto t : G.threads)
          if (t->st == RUNNABLE && t != cur) r.push_back(t);
      }
    }
    r.push_back(cur);
  }
  if (r.empty()) {
    uint64_t dl = UINT64_MAX;
    for (auto t : G.threads)
      if ((t->st == SLEEPING || t->st == BLOCKED_FUTEX) && t->deadline < dl) dl = t->deadline;
    if (dl == UINT64_MAX) {
      bool all = true;
      for (auto t : G.threads) all = all && t->st == FINISHED;
      if (all) return nullptr;
      stuck(true);
    }
    G.vtime = dl;
    wake_due();
    for (auto t : G.threads)
      if (t->st == RUNNABLE) r.push_back(t);
  }
  if (G.opt.strategy == 1) {
    // PCT: highest priority runnable thread; at the chosen steps the running thread drops to the bottom
    for (auto cp : G.pct_change)
      if (cp == G.res.steps && cur) cur->prio = --G.pct_low;
    Th* best = r[0];
    for (auto t : r)
      if (t->prio > best->prio) best = t;
    return best;
  }
  bool cur_first = !r.empty() && r[0] == cur;
  size_t c = choose(r.size(), cur_first);
  if (cur_first && c != 0) G.res.preemptions++;
  return r[c];
}

void switch_from(Th* self, Th* next) {
  if (next == self) return;
  if (next) sem_post(&next->sem);
  else sem_post(&G.done);
  if (self->st != FINISHED) {
    while (sem_wait(&self->sem) != 0) {
    }
  }
}

void yield_point(bool cur_yields) {
  Th* self = me;
  in_sched = true;
  Th* next = pick(self, cur_yields);
  switch_from(self, next);
  in_sched = false;
}

void block_current() {  // state already set to a blocked state
  Th* self = me;
  in_sched = true;
  Th* next = pick(self, false);
  if (!next) stuck(true);
  switch_from(self, next);
  in_sched = false;
}

struct Sentinel {
  Th* th = nullptr;
  ~Sentinel() {
    if (!th) return;
    Th* self = th;
    in_sched = true;
    self->st = FINISHED;
    for (auto t : G.threads)
      if (t->st == BLOCKED_JOIN && t->join_target == self->id) t->st = RUNNABLE;
    Th* next = pick(nullptr, false);
    me = nullptr;
    if (next) sem_post(&next->sem);
    else sem_post(&G.done);
  }
};
thread_local Sentinel sentinel;

void* trampoline(void* p) {
  Th* th = (Th*)p;
  me = th;
  while (sem_wait(&th->sem) != 0) {
  }
  sentinel.th = th;  // constructed first in this thread => destroyed after every other thread_local
  if (th->start) th->retval = th->start(th->arg);
  else th->body();
  return th->retval;
}

Th* new_thread() {
  Th* t = new Th();
  t->id = (int)G.threads.size();
  sem_init(&t->sem, 0, 0);
  t->prio = (int64_t)(rnd() % 1000000) + 1;
  G.threads.push_back(t);
  return t;
}

}  // namespace

void point(Kind kind, int order, const void* addr, const char* file, int line) noexcept {
  Th* self = me;
  if (!self || in_sched || !G.active) return;
  self->last_file = file;
  self->last_line = line;
  self->last_kind = kind;
  if (G.opt.record_sites && file) {
    char buf[600];
    snprintf(buf, sizeof buf, "%s:%d %d %d", file, line, (int)kind, order);
    in_sched = true;
    G.sites.insert(buf);
    in_sched = false;
  }
  yield_point(kind == K_YIELD);
}

int self() noexcept { return me ? me->id : -1; }
uint64_t now_ns() noexcept { return G.vtime; }
static int64_t g_wall_offset = 0;
void step_wall_clock(int64_t ns) noexcept { g_wall_offset += ns; }
namespace ip { int64_t wall_offset() noexcept { return g_wall_offset; } }
uint64_t stamp() noexcept { return ++G.seq; }
void advance_time(uint64_t ns) noexcept {
  if (!me) {
    G.vtime += ns;
    return;
  }
  G.vtime += ns;
  point(K_USER, 0, nullptr, "advance_time", 0);
}
std::vector<std::string> sites() { return std::vector<std::string>(G.sites.begin(), G.sites.end()); }

Result run(const std::vector<std::function<void()>>& bodies, const Options& opt) {
  for (auto t : G.threads) {
    sem_destroy(&t->sem);
    delete t;
  }
  G.threads.clear();
  G.by_real.clear();
  G.opt = opt;
  G.res = Result();
  G.rng = opt.seed * 0x2545F4914F6CDD1Dull + 0x9E37;
  G.vtime = 0;
  G.choice_pos = 0;
  G.pct_low = 0;
  G.pct_change.clear();
  if (opt.strategy == 1)
    for (int i = 0; i + 1 < opt.pct_depth; ++i) G.pct_change.push_back(1 + rnd() % 600);
  sem_init(&G.done, 0, 0);
  for (auto& b : bodies) {
    Th* t = new_thread();
    t->body = b;
  }
  G.active = true;
  for (auto t : G.threads) {
    real_create()(&t->real, nullptr, trampoline, t);
  }
  size_t nbodies = G.threads.size();
  {
    in_sched = true;
    Th* first = pick(nullptr, false);
    in_sched = false;
    if (first) sem_post(&first->sem);
    else sem_post(&G.done);
  }
  while (sem_wait(&G.done) != 0) {
  }
  G.active = false;
  for (size_t i = 0; i < nbodies; ++i) real_join()(G.threads[i]->real, nullptr);
  G.res.vtime_ns = G.vtime;
  return G.res;
}

// ------------------------------------------------------------------ used by the interposers
namespace ip {

bool registered() { return me != nullptr && G.active && !in_sched; }

int futex_wait(uint32_t* addr, uint32_t val, const struct timespec* ts) {
  point(K_FUTEX_WAIT, 0, addr, "futex_wait", 0);
  if (__atomic_load_n(addr, __ATOMIC_SEQ_CST) != val) {
    errno = EAGAIN;
    return -1;
  }
  Th* self = me;
  self->st = BLOCKED_FUTEX;
  self->wait_addr = addr;
  self->timed_out = false;
  self->spurious = false;
  self->wait_seq = ++G.seq;
  self->deadline = UINT64_MAX;
  if (ts) {
    uint64_t d = (uint64_t)ts->tv_sec * 1000000000ull + (uint64_t)ts->tv_nsec;
    self->deadline = (ts->tv_sec < 0) ? G.vtime : G.vtime + d;
  }
  const char* f = self->last_file;
  int l = self->last_line;
  block_current();
  self->last_file = f;
  self->last_line = l;
  self->wait_addr = nullptr;
  if (self->timed_out) {
    errno = ETIMEDOUT;
    return -1;
  }
  if (self->spurious) {
    self->spurious = false;
    if (G.rng & 1) {
      errno = EINTR;
      return -1;
    }
  }
  return 0;
}

int futex_wake(uint32_t* addr, int n) {
  point(K_FUTEX_WAKE, 0, addr, "futex_wake", 0);
  int woken = 0;
  while (woken < n) {
    std::vector<Th*> w;
    for (auto t : G.threads)
      if (t->st == BLOCKED_FUTEX && t->wait_addr == addr) w.push_back(t);
    if (w.empty()) break;
    std::sort(w.begin(), w.end(), [](Th* a, Th* b) { return a->wait_seq < b->wait_seq; });
    in_sched = true;
    size_t c = (n >= (int)w.size()) ? 0 : choose(w.size(), false);
    in_sched = false;
    w[c]->st = RUNNABLE;
    w[c]->deadline = UINT64_MAX;
    woken++;
  }
  return woken;
}

void sleep_ns(uint64_t ns) {
  point(K_SLEEP, 0, nullptr, "sleep", 0);
  Th* self = me;
  self->st = SLEEPING;
  self->deadline = G.vtime + ns;
  self->timed_out = false;
  block_current();
}

void yield() { point(K_YIELD, 0, nullptr, "sched_yield", 0); }

uint64_t vtime() { return G.vtime; }

int create(pthread_t* out, const pthread_attr_t* attr, void* (*start)(void*), void* arg) {
  in_sched = true;
  Th* t = new_thread();
  t->start = start;
  t->arg = arg;
  int rc = real_create()(&t->real, attr, trampoline, t);
  G.by_real[t->real] = t->id;
  *out = t->real;
  in_sched = false;
  point(K_SPAWN, 0, nullptr, "pthread_create", 0);
  return rc;
}

bool join(pthread_t th, void** ret, int* rc) {
  in_sched = true;
  auto it = G.by_real.find(th);
  in_sched = false;
  if (it == G.by_real.end()) return false;
  Th* target = G.threads[it->second];
  point(K_JOIN, 0, nullptr, "pthread_join", 0);
  if (target->st != FINISHED) {
    me->st = BLOCKED_JOIN;
    me->join_target = target->id;
    block_current();
  }
  *rc = real_join()(th, ret);
  return true;
}

void mutex_block(const void* m) {
  Th* self = me;
  self->st = BLOCKED_MUTEX;
  self->wait_addr = m;
  block_current();
}

void mutex_released(const void* m) {
  for (auto t : G.threads)
    if (t->st == BLOCKED_MUTEX && t->wait_addr == m) t->st = RUNNABLE;
}

}  // namespace ip
}  // namespace verif

// ===================================================================== interposed libc entry points
namespace verif { namespace ip {
bool registered();
int futex_wait(uint32_t*, uint32_t, const struct timespec*);
int futex_wake(uint32_t*, int);
void sleep_ns(uint64_t);
void yield();
uint64_t vtime();
int64_t wall_offset() noexcept;
int create(pthread_t*, const pthread_attr_t*, void* (*)(void*), void*);
bool join(pthread_t, void**, int*);
void mutex_block(const void*);
void mutex_released(const void*);
}}

static long raw_syscall6(long n, long a, long b, long c, long d, long e, long f) {
  long ret;
  register long r10 __asm__("r10") = d;
  register long r8 __asm__("r8") = e;
  register long r9 __asm__("r9") = f;
  __asm__ volatile("syscall" : "=a"(ret) : "a"(n), "D"(a), "S"(b), "d"(c), "r"(r10), "r"(r8), "r"(r9)
                   : "rcx", "r11", "memory");
  if (ret < 0 && ret > -4096) {
    errno = (int)-ret;
    return -1;
  }
  return ret;
}

extern "C" long syscall(long n, ...) noexcept {
  va_list ap;
  va_start(ap, n);
  long a = va_arg(ap, long), b = va_arg(ap, long), c = va_arg(ap, long), d = va_arg(ap, long), e = va_arg(ap, long),
       f = va_arg(ap, long);
  va_end(ap);
  if (n == SYS_futex && verif::ip::registered()) {
    int op = (int)b & ~(FUTEX_PRIVATE_FLAG | FUTEX_CLOCK_REALTIME);
    if (op == FUTEX_WAIT) return verif::ip::futex_wait((uint32_t*)a, (uint32_t)c, (const struct timespec*)d);
    if (op == FUTEX_WAKE) return verif::ip::futex_wake((uint32_t*)a, (int)c);
  }
  return raw_syscall6(n, a, b, c, d, e, f);
}

extern "C" int usleep(useconds_t us) {
  if (verif::ip::registered()) {
    verif::ip::sleep_ns((uint64_t)us * 1000ull);
    return 0;
  }
  struct timespec ts = {(time_t)(us / 1000000), (long)(us % 1000000) * 1000};
  return (int)raw_syscall6(SYS_nanosleep, (long)&ts, 0, 0, 0, 0, 0);
}

extern "C" int nanosleep(const struct timespec* req, struct timespec* rem) {
  if (verif::ip::registered()) {
    verif::ip::sleep_ns((uint64_t)req->tv_sec * 1000000000ull + (uint64_t)req->tv_nsec);
    return 0;
  }
  return (int)raw_syscall6(SYS_nanosleep, (long)req, (long)rem, 0, 0, 0, 0);
}

extern "C" int clock_nanosleep(clockid_t clk, int flags, const struct timespec* req, struct timespec* rem) {
  if (verif::ip::registered()) {
    uint64_t ns = (uint64_t)req->tv_sec * 1000000000ull + (uint64_t)req->tv_nsec;
    if (flags & TIMER_ABSTIME) {
      uint64_t now = 1000000ull * 1000000000ull + verif::ip::vtime();
      ns = ns > now ? ns - now : 0;
    }
    verif::ip::sleep_ns(ns);
    return 0;
  }
  long r = raw_syscall6(SYS_clock_nanosleep, clk, flags, (long)req, (long)rem, 0, 0);
  return r < 0 ? errno : 0;
}

extern "C" int sched_yield(void) noexcept {
  if (verif::ip::registered()) {
    verif::ip::yield();
    return 0;
  }
  return (int)raw_syscall6(SYS_sched_yield, 0, 0, 0, 0, 0, 0);
}

extern "C" int clock_gettime(clockid_t clk, struct timespec* ts) noexcept {
  if (verif::ip::registered()) {
    // calendar clocks can be stepped by the client program (NTP step, date -s, VM resume); monotonic ones cannot
    int64_t t = (int64_t)verif::ip::vtime() + 1000000ll * 1000000000ll;   // epoch of the virtual clocks: 10^6 s
    if (clk == CLOCK_REALTIME || clk == CLOCK_REALTIME_COARSE || clk == CLOCK_REALTIME_ALARM || clk == CLOCK_TAI)
      t += verif::ip::wall_offset();
    if (t < 0) t = 0;
    ts->tv_sec = (time_t)(t / 1000000000ll);
    ts->tv_nsec = (long)(t % 1000000000ll);
    return 0;
  }
  return (int)raw_syscall6(SYS_clock_gettime, clk, (long)ts, 0, 0, 0, 0);
}

extern "C" int pthread_create(pthread_t* t, const pthread_attr_t* a, void* (*s)(void*), void* arg) noexcept {
  if (verif::ip::registered()) return verif::ip::create(t, a, s, arg);
  typedef int (*fn)(pthread_t*, const pthread_attr_t*, void* (*)(void*), void*);
  static fn real = (fn)dlsym(RTLD_NEXT, "pthread_create");
  return real(t, a, s, arg);
}

extern "C" int pthread_join(pthread_t t, void** ret) {
  if (verif::ip::registered()) {
    int rc = 0;
    if (verif::ip::join(t, ret, &rc)) return rc;
  }
  typedef int (*fn)(pthread_t, void**);
  static fn real = (fn)dlsym(RTLD_NEXT, "pthread_join");
  return real(t, ret);
}

extern "C" {
int real_mutex_lock(pthread_mutex_t*);
int real_mutex_trylock(pthread_mutex_t*);
int real_mutex_unlock(pthread_mutex_t*);
__asm__(".symver real_mutex_lock,__pthread_mutex_lock@GLIBC_2.2.5");
__asm__(".symver real_mutex_trylock,__pthread_mutex_trylock@GLIBC_2.2.5");
__asm__(".symver real_mutex_unlock,__pthread_mutex_unlock@GLIBC_2.2.5");
}

extern "C" int pthread_mutex_lock(pthread_mutex_t* m) noexcept {
  if (verif::ip::registered()) {
    verif::point(verif::K_MUTEX, 0, m, "pthread_mutex_lock", 0);
    while (real_mutex_trylock(m) != 0) verif::ip::mutex_block(m);
    return 0;
  }
  return real_mutex_lock(m);
}

extern "C" int pthread_mutex_unlock(pthread_mutex_t* m) noexcept {
  int rc = real_mutex_unlock(m);
  if (verif::ip::registered()) verif::ip::mutex_released(m);
  return rc;
}
