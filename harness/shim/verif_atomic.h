// std::verif_atomic<T>: same layout as std::atomic<T> (derives from it, adds no member), every
// operation first calls verif::point(...) with its kind, memory order and source location.
// Usage in a harness translation unit (no edit of /repo needed):
//     #include "shim/prelude.h"     // every std/absl/protobuf header babylon uses + this file
//     #define atomic verif_atomic
//     #define atomic_thread_fence verif_fence
//     #include "babylon/..."
#pragma once
#include <atomic>
#include "shim/dsched.h"

namespace std {

template <typename T>
struct verif_atomic : public atomic<T> {
  using B = atomic<T>;
  verif_atomic() noexcept = default;
  constexpr verif_atomic(T v) noexcept : B(v) {}
  verif_atomic(const verif_atomic&) = delete;
  verif_atomic& operator=(const verif_atomic&) = delete;

#define VLOC const char* f = __builtin_FILE(), int l = __builtin_LINE()
  T load(memory_order o = memory_order_seq_cst, VLOC) const noexcept {
    ::verif::point(::verif::K_LOAD, (int)o, this, f, l);
    return B::load(o);
  }
  T load(memory_order o = memory_order_seq_cst, VLOC) const volatile noexcept {
    ::verif::point(::verif::K_LOAD, (int)o, (const void*)this, f, l);
    return B::load(o);
  }
  void store(T v, memory_order o = memory_order_seq_cst, VLOC) noexcept {
    ::verif::point(::verif::K_STORE, (int)o, this, f, l);
    B::store(v, o);
  }
  T exchange(T v, memory_order o = memory_order_seq_cst, VLOC) noexcept {
    ::verif::point(::verif::K_XCHG, (int)o, this, f, l);
    return B::exchange(v, o);
  }
  bool compare_exchange_strong(T& e, T d, memory_order s, memory_order fl, VLOC) noexcept {
    ::verif::point(::verif::K_CAS_S, (int)s, this, f, l);
    return B::compare_exchange_strong(e, d, s, fl);
  }
  bool compare_exchange_strong(T& e, T d, memory_order s = memory_order_seq_cst, VLOC) noexcept {
    ::verif::point(::verif::K_CAS_S, (int)s, this, f, l);
    return B::compare_exchange_strong(e, d, s);
  }
  // a weak CAS may fail spuriously; under the scheduler it behaves as the strong one (a spurious
  // failure is always equivalent to some other thread having interfered and is covered by schedules
  // in which one does)
  bool compare_exchange_weak(T& e, T d, memory_order s, memory_order fl, VLOC) noexcept {
    ::verif::point(::verif::K_CAS_W, (int)s, this, f, l);
    return B::compare_exchange_strong(e, d, s, fl);
  }
  bool compare_exchange_weak(T& e, T d, memory_order s = memory_order_seq_cst, VLOC) noexcept {
    ::verif::point(::verif::K_CAS_W, (int)s, this, f, l);
    return B::compare_exchange_strong(e, d, s);
  }
  template <typename U = T>
  auto fetch_add(typename atomic<U>::difference_type v, memory_order o = memory_order_seq_cst, VLOC) noexcept
      -> decltype(std::declval<atomic<U>&>().fetch_add(v, o)) {
    ::verif::point(::verif::K_FADD, (int)o, this, f, l);
    return B::fetch_add(v, o);
  }
  template <typename U = T>
  auto fetch_sub(typename atomic<U>::difference_type v, memory_order o = memory_order_seq_cst, VLOC) noexcept
      -> decltype(std::declval<atomic<U>&>().fetch_sub(v, o)) {
    ::verif::point(::verif::K_FSUB, (int)o, this, f, l);
    return B::fetch_sub(v, o);
  }
  template <typename U = T>
  auto fetch_or(U v, memory_order o = memory_order_seq_cst, VLOC) noexcept -> decltype(std::declval<atomic<U>&>().fetch_or(v, o)) {
    ::verif::point(::verif::K_FOR, (int)o, this, f, l);
    return B::fetch_or(v, o);
  }
  template <typename U = T>
  auto fetch_and(U v, memory_order o = memory_order_seq_cst, VLOC) noexcept -> decltype(std::declval<atomic<U>&>().fetch_and(v, o)) {
    ::verif::point(::verif::K_FAND, (int)o, this, f, l);
    return B::fetch_and(v, o);
  }
#undef VLOC
  operator T() const noexcept { return load(memory_order_seq_cst, __builtin_FILE(), __builtin_LINE()); }
  T operator=(T v) noexcept {
    store(v, memory_order_seq_cst, __builtin_FILE(), __builtin_LINE());
    return v;
  }
  template <typename U = T>
  auto operator++() noexcept -> decltype(std::declval<atomic<U>&>().fetch_add(1) + 1) { return fetch_add(1) + 1; }
  template <typename U = T>
  auto operator++(int) noexcept -> decltype(std::declval<atomic<U>&>().fetch_add(1)) { return fetch_add(1); }
  template <typename U = T>
  auto operator--() noexcept -> decltype(std::declval<atomic<U>&>().fetch_sub(1) - 1) { return fetch_sub(1) - 1; }
  template <typename U = T>
  auto operator--(int) noexcept -> decltype(std::declval<atomic<U>&>().fetch_sub(1)) { return fetch_sub(1); }
  template <typename U = T>
  auto operator+=(typename atomic<U>::difference_type v) noexcept -> decltype(std::declval<atomic<U>&>().fetch_add(v) + v) {
    return fetch_add(v) + v;
  }
  template <typename U = T>
  auto operator-=(typename atomic<U>::difference_type v) noexcept -> decltype(std::declval<atomic<U>&>().fetch_sub(v) - v) {
    return fetch_sub(v) - v;
  }
};

inline void verif_fence(memory_order o, const char* f = __builtin_FILE(), int l = __builtin_LINE()) noexcept {
  ::verif::point(::verif::K_FENCE, (int)o, nullptr, f, l);
  atomic_thread_fence(o);
}

}  // namespace std
