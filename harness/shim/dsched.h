// Deterministic scheduler + atomic shim interface (engine E4).
// Every atomic operation of babylon code (through std::verif_atomic, see verif_atomic.h), every futex
// syscall, usleep, sched_yield, pthread mutex operation and pthread create/join of a *registered*
// thread is a scheduling point: exactly one registered thread runs at a time and the next one is picked
// by the active strategy (seeded random, PCT, replay of a recorded choice list, or DFS prefix).
#pragma once
#include <stdint.h>
#include <functional>
#include <string>
#include <vector>

namespace verif {

enum Kind : int { K_LOAD, K_STORE, K_XCHG, K_FADD, K_FSUB, K_FOR, K_FAND, K_CAS_S, K_CAS_W, K_FENCE,
                  K_FUTEX_WAIT, K_FUTEX_WAKE, K_SLEEP, K_YIELD, K_MUTEX, K_SPAWN, K_JOIN, K_USER };

// scheduling point, called *before* the operation takes effect
void point(Kind kind, int order, const void* addr, const char* file, int line) noexcept;

struct Options {
  uint64_t seed = 1;
  int strategy = 0;                 // 0 random, 1 PCT, 2 replay(choices), 3 round-robin with random preemptions
  int pct_depth = 3;
  int preempt_per_mille = 500;      // strategy 3: chance of a pre-emption at a point
  std::vector<int> choices;         // replay / DFS prefix: index into the runnable list at each real choice
  uint64_t max_steps = 2000000;     // livelock guard
  uint64_t step_ns = 50;            // virtual nanoseconds per scheduling point
  bool spurious_futex = false;      // futex_wait may return without a wake: EINTR (signal) or a spurious 0
  bool record_sites = false;
};

struct Result {
  bool ok = true;                   // all threads finished
  bool deadlock = false;            // unfinished threads, none runnable, nothing with a deadline
  bool livelock = false;            // max_steps exceeded
  uint64_t steps = 0;
  uint64_t preemptions = 0;
  uint64_t vtime_ns = 0;
  std::vector<int> choices;         // the choice made at every point with more than one option
  std::vector<int> widths;          // number of options at each of those points (for DFS)
  std::string blocked_report;       // who was blocked on what (deadlock / livelock)
};

// runs the given thread bodies (thread i = bodies[i]) under the scheduler until all registered threads,
// including ones they create through pthread_create, finish.  Must be called from an unregistered thread.
Result run(const std::vector<std::function<void()>>& bodies, const Options& opt);

// inside a registered thread
int self() noexcept;                       // dsched thread id (0..), -1 if unregistered
uint64_t now_ns() noexcept;                // virtual time
void advance_time(uint64_t ns) noexcept;   // client-program step: let virtual time pass
void step_wall_clock(int64_t ns) noexcept; // step the calendar clocks (CLOCK_REALTIME*, CLOCK_TAI) by ns, either direction;
                                           // monotonic clocks are unaffected; the offset persists until stepped back
uint64_t stamp() noexcept;                 // global step counter (monotone), for begin/end stamps

// dynamic site table (file:line kind order) seen so far in this process
std::vector<std::string> sites();

}  // namespace verif
