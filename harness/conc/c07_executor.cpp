// C07 driver: real babylon::ThreadPoolExecutor / InplaceExecutor / AlwaysUseNewThreadExecutor / a refusing
// executor under the deterministic scheduler.  executor.cpp and basic_executor.cpp are compiled into this
// driver through the atomic shim (see checks/c07.py), so every atomic operation of the queues, start(), stop(),
// the worker loop and the balance thread is a scheduling point; worker/balance threads are std::threads created
// by start() from inside a scheduled body (pthread_create/join interposed).
// (strategy + 10 = same strategy with spurious futex_wait returns injected)
// stdin lines: <case-id> <seed> <strategy> <kind> <workers> <global-cap> <local-cap> <steal> <balance-us> <bodies> <threads>
//   kind     P thread pool | I inplace | T always-new-thread | F executor whose invoke refuses (BasicExecutor::invoke)
//   bodies   task table, ';'-separated, entry i = children task i submits while it runs ("-" none, else "a.b.c");
//            an entry "n" in place of a child id: the task synchronously runs a function through
//            InplaceExecutor::instance() (a nested RunnerScope of another executor) and afterwards must still
//            report is_running_in() for its own executor
//   threads  external threads '|'-separated, ops ','-separated:
//              s<id> submit/execute task id (odd id: execute -> future, even id: submit -> int)
//              W     wakeup_one_worker()         X stop()/join()        D delete the executor (destructor)
//              J     wait until every other external thread has finished its program
// stdout: <case-id> ok steps=.. | run=<task ids in start order> norun=<accepted, never run> late=<n> | monitors
#include "shim/prelude.h"
#include "babylon/executor.h"

#include <condition_variable>
#include <mutex>
#include <cstdio>
#include <cstring>
#include <sstream>

using namespace babylon;

struct Refusing : public Executor {};   // does not override invoke: BasicExecutor::invoke refuses every function

struct TaskInfo {
  std::vector<int> children;
  int runs = 0, finished = 0;
  bool scope_ok = true, other_scope = false;
  bool submitted = false, accepted = false, expect_local = false, has_future = false, future_valid = false;
  int parent = -1;
  uint64_t sub_end = 0;
  Future<int> fut;
  bool fin_at_stop = false, ready_at_stop = false, started_at_stop = false;
  bool value_ok = true;
};

struct World {
  char kind;
  Executor* ex = nullptr;
  ThreadPoolExecutor* pool = nullptr;
  std::vector<TaskInfo> tasks;
  std::vector<int> log;
  bool stop_called = false, stop_returned = false, destroyed = false;
  uint64_t stop_begin = 0;
  size_t log_at_stop = 0;
  bool dup_submit = false, inplace_late = false;
  std::atomic<int> done {0};
};

static World* W;
static int g_linger = 0;   // C07_PAD runs: scheduling points a task spends after each child submission

static int run_task(int id);

static void submit_task(int id, int parent) {
  TaskInfo& t = W->tasks[id];
  if (t.submitted) { W->dup_submit = true; return; }
  t.submitted = true;
  t.parent = parent;
  if (W->pool && W->pool->is_running_in() && W->pool->_local_capacity > 0) {
    // only the owner pushes to its local queue, everybody else only pops: a size below capacity now is still
    // below capacity when enqueue_task looks
    t.expect_local = W->pool->_local_task_queues.local().size() < W->pool->_local_capacity;
  }
  if (id % 2) {
    Future<int> f = W->ex->execute(run_task, id);
    t.has_future = true;
    t.future_valid = f.valid();
    t.accepted = f.valid();
    t.fut = f;
  } else {
    int r = W->ex->submit(run_task, id);
    t.accepted = r == 0;
  }
  t.sub_end = verif::stamp();
  if (W->kind == 'I' && t.finished != 1) W->inplace_late = true;   // inplace: has run when submit returns
}

static int run_task(int id) {
  TaskInfo& t = W->tasks[id];
  t.runs++;
  W->log.push_back(id);
  if (!W->ex->is_running_in()) t.scope_ok = false;
  if (W->kind != 'I' && InplaceExecutor::instance().is_running_in()) t.other_scope = true;
  for (int c : t.children) {
    if (c < 0) {   // nested use of another executor on this thread
      int inner = 0;
      auto f = InplaceExecutor::instance().execute([&inner] {
        inner = InplaceExecutor::instance().is_running_in() ? 1 : -1;
        return 0;
      });
      if (!f.valid() || inner != 1) t.scope_ok = false;          // the nested function ran inside the in-place executor
      if (!W->ex->is_running_in()) t.scope_ok = false;           // ... and the task is back in its own executor
      if (W->kind != 'I' && InplaceExecutor::instance().is_running_in()) t.other_scope = true;
      continue;
    }
    submit_task(c, id);
    if (g_linger) for (int k = 0; k < g_linger; ++k) sched_yield();   // keep the parent busy: idle workers get to steal
  }
  t.finished++;
  return id * 7 + 1;
}

static void snapshot_at_stop() {
  W->stop_returned = true;
  W->log_at_stop = W->log.size();
  for (auto& t : W->tasks) {
    t.fin_at_stop = t.finished > 0;
    t.started_at_stop = t.runs > 0;
    if (t.has_future && t.future_valid && t.sub_end && t.sub_end < W->stop_begin) t.ready_at_stop = t.fut.ready();
  }
}

static void do_stop(bool destroy) {
  if (W->stop_called) { if (destroy && !W->destroyed && W->pool) { W->destroyed = true; delete W->pool; } return; }
  W->stop_called = true;
  W->stop_begin = verif::stamp();
  if (W->kind == 'P') {
    if (destroy) { W->destroyed = true; delete W->pool; } else W->pool->stop();
  } else if (W->kind == 'T') {
    AlwaysUseNewThreadExecutor::instance().join();
  }
  snapshot_at_stop();
}

// C07_PAD=<n>: before anything else park n plain threads (outside the scheduler) that each take a babylon ThreadId
// of the kind that indexes ThreadPoolExecutor::_local_task_queues, so that the pool workers of the cases get thread
// ids straddling a storage-block boundary of EnumerableThreadLocal (128 ids per block): for_each then invokes the
// work-stealing callback more than once per scan.
static void park_padding_threads() {
  const char* e = getenv("C07_PAD");
  int n = e ? atoi(e) : 0;
  if (n <= 0) return;
  g_linger = 300;   // a scan over 126 idle queues takes a few hundred scheduling points
  // leaked on purpose: the parked threads wait on them until the process exits
  static std::mutex& mu = *new std::mutex; static std::condition_variable& cv = *new std::condition_variable;
  static int ready = 0; static bool never = false;
  for (int i = 0; i < n; ++i) {
    std::thread([] {
      (void)ThreadId::current_thread_id<ConcurrentBoundedQueue<ThreadPoolExecutor::Task>>();
      std::unique_lock<std::mutex> lk(mu);
      ++ready; cv.notify_all();
      cv.wait(lk, [] { return never; });
    }).detach();
    std::unique_lock<std::mutex> lk(mu);
    cv.wait(lk, [&] { return ready > i; });     // one at a time: ids 0 .. n-1
  }
}

int main() {
  park_padding_threads();
  char line[8192];
  while (fgets(line, sizeof line, stdin)) {
    char id[64], kind, bodies[3000], threads[3000];
    unsigned long long seed; int strategy, nw, gcap, lcap, steal, bal;
    if (sscanf(line, "%63s %llu %d %c %d %d %d %d %d %2999s %2999s", id, &seed, &strategy, &kind, &nw, &gcap, &lcap, &steal,
               &bal, bodies, threads) != 11) continue;
    World world; W = &world; world.kind = kind;
    {
      std::stringstream ss(bodies); std::string b;
      while (std::getline(ss, b, ';')) {
        TaskInfo t;
        if (b != "-") { std::stringstream s2(b); std::string c; while (std::getline(s2, c, '.')) if (!c.empty()) t.children.push_back(c == "n" ? -1 : atoi(c.c_str())); }
        world.tasks.push_back(std::move(t));
      }
    }
    std::vector<std::vector<std::string>> progs;
    {
      std::stringstream ss(threads); std::string th;
      while (std::getline(ss, th, '|')) {
        std::vector<std::string> ops; std::stringstream s2(th); std::string o;
        while (std::getline(s2, o, ',')) if (!o.empty()) ops.push_back(o);
        progs.push_back(ops);
      }
    }
    Refusing refusing;
    std::vector<std::function<void()>> bodies_fn;
    bodies_fn.push_back([&] {
      if (kind == 'P') {
        world.pool = new ThreadPoolExecutor;
        world.pool->set_worker_number((size_t)nw);
        world.pool->set_global_capacity((size_t)gcap);
        world.pool->set_local_capacity((size_t)lcap);
        world.pool->set_enable_work_stealing(steal != 0);
        if (bal > 0) world.pool->set_balance_interval(std::chrono::microseconds(bal));
        world.pool->start();
        world.ex = world.pool;
      } else if (kind == 'I') world.ex = &InplaceExecutor::instance();
      else if (kind == 'T') world.ex = &AlwaysUseNewThreadExecutor::instance();
      else world.ex = &refusing;
      std::vector<std::thread> ths;
      int others = (int)progs.size() - 1;
      for (size_t k = 0; k < progs.size(); ++k) {
        ths.emplace_back([&, k] {
          for (auto& o : progs[k]) {
            switch (o[0]) {
              case 's': submit_task(atoi(o.c_str() + 1), -1); break;
              case 'W': if (world.pool && !world.destroyed) world.pool->wakeup_one_worker(); break;
              case 'X': do_stop(false); break;
              case 'D': do_stop(true); break;
              case 'J': while (world.done.load(std::memory_order_acquire) < others) usleep(1); break;
            }
          }
          world.done.fetch_add(1, std::memory_order_acq_rel);
        });
      }
      for (auto& t : ths) t.join();
      if (!world.stop_called) do_stop(false);
      if (kind == 'T') AlwaysUseNewThreadExecutor::instance().join();   // a join() racing with submitters may have returned early
      for (size_t i = 0; i < world.tasks.size(); ++i) {   // futures: value of the callable, never ready without a run
        TaskInfo& t = world.tasks[i];
        if (t.has_future && t.future_valid) {
          if (t.runs == 1 && t.finished == 1 && (!t.fut.ready() || t.fut.get() != (int)i * 7 + 1)) t.value_ok = false;
          if (t.runs == 0 && t.fut.ready()) t.value_ok = false;
        }
        t.fut = Future<int>();   // a task stranded behind the STOP markers is destroyed with the queue: drop our reference first
      }
      if (world.pool && !world.destroyed) { world.destroyed = true; delete world.pool; }   // destructor: second stop() is a no-op
    });
    verif::Options opt; opt.seed = seed; opt.strategy = strategy % 10; opt.spurious_futex = strategy >= 10; opt.max_steps = 400000;
    verif::Result r = verif::run(bodies_fn, opt);
    // ---- monitors -------------------------------------------------------------------------------------------
    size_t n = world.tasks.size();
    std::vector<char> must(n, 0);
    for (size_t i = 0; i < n; ++i) {
      TaskInfo& t = world.tasks[i];
      if (t.accepted && t.sub_end && t.sub_end < world.stop_begin) must[i] = 1;   // success reported before stop() was called
    }
    for (bool ch = true; ch;) {   // ... and what those tasks spawned into local queues
      ch = false;
      for (size_t i = 0; i < n; ++i) {
        TaskInfo& t = world.tasks[i];
        if (!must[i] && t.accepted && t.parent >= 0 && must[(size_t)t.parent] && (t.expect_local || kind == 'T')) { must[i] = 1; ch = true; }
      }
    }
    bool once = true, drain = true, ready = true, scope = true, failed = true, value = true, quiet = true, inplace = true;
    std::string norun;
    for (size_t i = 0; i < n; ++i) {
      TaskInfo& t = world.tasks[i];
      if (t.runs > 1 || t.finished != t.runs) once = false;
      if (must[i] && t.runs != 1) once = false;
      if (must[i] && !t.fin_at_stop) drain = false;
      if (must[i] && t.has_future && t.sub_end < world.stop_begin && !t.ready_at_stop) ready = false;
      if (t.runs && (!t.scope_ok || t.other_scope)) scope = false;
      if ((!t.submitted || !t.accepted) && t.runs) failed = false;
      if (t.submitted && !t.accepted && t.has_future && t.future_valid) failed = false;
      if (kind == 'F' && t.submitted && (t.accepted || t.runs)) failed = false;
      if (!t.value_ok) value = false;
      if (kind == 'P' && t.runs && !t.started_at_stop) quiet = false;
      if (kind == 'P' && t.started_at_stop && !t.fin_at_stop) quiet = false;
      if (kind == 'I' && t.submitted && t.runs != 1) inplace = false;
      if (t.accepted && !t.runs) norun += (norun.empty() ? "" : ",") + std::to_string(i);
    }
    if (world.dup_submit) once = false;
    if (world.inplace_late) inplace = false;
    std::string run;
    for (size_t i = 0; i < world.log.size(); ++i) run += (i ? "," : "") + std::to_string(world.log[i]);
    if (getenv("C07_DEBUG")) fprintf(stderr, "tidend=%u\n", (unsigned)ThreadId::end<ConcurrentBoundedQueue<ThreadPoolExecutor::Task>>());
    printf("%s ok steps=%llu pre=%llu | run=%s norun=%s late=%zu | once=%d drain=%d ready=%d scope=%d failed=%d value=%d quiet=%d inplace=%d\n",
           id, (unsigned long long)r.steps, (unsigned long long)r.preemptions, run.c_str(), norun.c_str(),
           world.log.size() - world.log_at_stop, once, drain, ready, scope, failed, value, quiet, inplace);
    fflush(stdout);
  }
  return 0;
}
