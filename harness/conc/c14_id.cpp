// C14 driver: real babylon::IdAllocator<uint16_t/uint32_t>, DepositBox and ThreadId under the deterministic scheduler.
// stdin lines (first word = case id):
//   <cid> AL <16|32> <seed> <strategy> <choices|-> <setup> <program>     allocator client programs
//   <cid> DB <seed> <strategy> <choices|-> <setup> <program>             deposit box client programs
//   <cid> TH <seed> <strategy> <tag> <script>                            thread ids: births / deaths / for_each
//   <cid> WRAP <pushes> <split>                                          staged version wrap (ABA) on uint16_t
//   <cid> SEQ <16|32> <n> <freemod>                                      sequential history: n ids live at once (block /
//                                                                        type-width boundaries), free a pattern, reuse, for_each
//   setup  : ops executed by one thread alone before the program threads start ("-" = none)
//   program: threads '|', ops ',':  A allocate | F<i> deallocate the i-th id kept by this thread (newest = 0)
//            V (setup only, i.e. quiescent) move-construct a new IdAllocator from the current one and continue on it
//            E emplace | T<k> take_released(k-th id handed out by emplace) | R finish_released(oldest taken)
//            RAII layer (every thread has 3 Accessor objects "holders", default constructed):
//            K<h>.<k> holder[h] = box.take(k-th id) | M<h>.<g> holder[h] = std::move(holder[g]) (h = g: self assignment)
//            C<h>.<g> destroy the (empty) holder[h] and move-construct it from holder[g] | D<h> destroy holder[h]
//   choices: strategy 2 replay list, items "c" or "c*n"
//   script : ',' separated: b<k> spawn k threads at once | s<k> spawn k threads one after the other, each at
//            quiescence | x<k> let the k oldest live threads exit and join them | q for_each check at quiescence
// stdout: <cid> ok steps=<n> | <outcome> | <monitor verdicts name=0/1>
#include <optional>
#include "shim/prelude.h"
#include "babylon/concurrent/deposit_box.h"
#include "babylon/concurrent/id_allocator.h"

#include <cstdio>
#include <cstring>
#include <map>
#include <set>
#include <sstream>

using namespace babylon;

static std::vector<std::string> split(const std::string& s, char sep) {
  std::vector<std::string> out; std::stringstream ss(s); std::string x;
  while (std::getline(ss, x, sep)) if (!x.empty()) out.push_back(x);
  return out;
}
static std::vector<int> parse_choices(const std::string& s) {
  std::vector<int> out;
  if (s == "-") return out;
  for (auto& it : split(s, ',')) {
    size_t star = it.find('*');
    int c = atoi(it.c_str()); long n = star == std::string::npos ? 1 : atol(it.c_str() + star + 1);
    for (long i = 0; i < n; ++i) out.push_back(c);
  }
  return out;
}
struct Op { char k; long arg; std::string res; long arg2 = 0; };
static std::vector<std::vector<Op>> parse_prog(const std::string& setup, const std::string& prog) {
  std::vector<std::vector<Op>> threads;
  std::vector<std::string> ths; ths.push_back(setup == "-" ? "" : setup);
  { std::stringstream ss(prog); std::string th; while (std::getline(ss, th, '|')) ths.push_back(th == "-" ? "" : th); }
  for (auto& th : ths) {
    std::vector<Op> ops;
    for (auto& o : split(th, ',')) {
      Op op{o[0], o.size() > 1 ? atol(o.c_str() + 1) : 0, ""};
      size_t dot = o.find('.'); if (dot != std::string::npos) op.arg2 = atol(o.c_str() + dot + 1);
      ops.push_back(op);
    }
    threads.push_back(ops);
  }
  return threads;
}
static std::string join_results(std::vector<std::vector<Op>>& threads) {
  std::string out;
  for (size_t t = 0; t < threads.size(); ++t) {
    for (size_t i = 0; i < threads[t].size(); ++i) out += threads[t][i].res + (i + 1 < threads[t].size() ? "," : "");
    out += (t + 1 < threads.size() ? "|" : "");
  }
  return out;
}
template <typename A, typename T>
static bool collect_live(A& al, std::set<T>& live) {   // false: malformed ranges / value reported twice
  bool ok = true; long last_end = -1;
  al.for_each([&](T b, T e) {
    if (!(b < e) || (long)b < last_end) ok = false;
    last_end = e;
    for (T v = b; v < e; ++v) if (!live.insert(v).second) ok = false;
  });
  return ok;
}
template <typename T> static std::string show_set(const std::set<T>& s) {
  std::string o; for (auto v : s) o += (o.empty() ? "" : ",") + std::to_string((unsigned long)v); return o;
}

// ---------------------------------------------------------------------------------------------- allocator
template <typename T>
static void run_alloc(const char* cid, unsigned long long seed, int strategy, const std::string& choices,
                      const std::string& setup, const std::string& prog) {
  auto threads = parse_prog(setup, prog);
  auto* al = new IdAllocator<T>();
  std::map<T, int> owner;                               // value -> thread that holds it now
  std::vector<std::vector<VersionedValue<T>>> held(threads.size());
  bool dup = false;
  // "version bumped on every push": the head version (read from the private head word between operations) never
  // decreases, and at quiescence it equals the number of deallocate calls made (pops keep it, every push adds one)
  bool headmono = true; unsigned long last_ver = 0, pushes = 0;
  auto watch_head = [&] { unsigned long v = al->_free_head.version; if (v < last_ver) headmono = false; last_ver = v; };
  auto exec = [&](size_t t, Op& op) {
    struct AtExit { std::function<void()> f; ~AtExit() { f(); } } at_exit{watch_head};
    if (op.k == 'A') {
      auto id = al->allocate();
      if (owner.count(id.value)) dup = true;            // two owners at the same time
      owner[id.value] = (int)t;
      held[t].insert(held[t].begin(), id);
      op.res = std::to_string((unsigned long)id.value) + "@" + std::to_string((unsigned long)id.version);
    } else if (op.k == 'F') {
      if ((size_t)op.arg >= held[t].size()) { op.res = "-"; return; }
      auto id = held[t][op.arg]; held[t].erase(held[t].begin() + op.arg);
      owner.erase(id.value);
      al->deallocate(id);
      pushes++;
      op.res = "f";
    } else if (op.k == 'V') {                           // move-construct a new allocator from this one, continue on it
      auto* nb = new IdAllocator<T>(std::move(*al));
      delete al; al = nb;
      op.res = "v";
    } else op.res = "?";
  };
  for (auto& op : threads[0]) exec(0, op);              // setup, alone (not under the scheduler)
  std::vector<std::function<void()>> bodies;
  for (size_t t = 1; t < threads.size(); ++t) bodies.push_back([&, t] { for (auto& op : threads[t]) exec(t, op); });
  verif::Options opt; opt.seed = seed; opt.strategy = strategy; opt.choices = parse_choices(choices); opt.max_steps = 4000000;
  verif::Result r = verif::run(bodies, opt);
  // quiescent: for_each must report exactly the held values
  std::set<T> live, want; bool ranges_ok = collect_live<IdAllocator<T>, T>(*al, live);
  for (auto& kv : owner) want.insert(kv.first);
  T end0 = al->end();
  bool foreach_ok = ranges_ok && live == want;
  bool pushcount = (T)al->_free_head.version == (T)pushes;
  std::string out = join_results(threads) + " live=" + show_set(live) + " end=" + std::to_string((unsigned long)end0);
  // free-list integrity / reuse at quiescence: exactly end - |held| values come back before anything new is minted
  bool reuse_ok = true; std::set<T> got;
  size_t nfree = (size_t)end0 >= want.size() ? (size_t)end0 - want.size() : 0;
  for (size_t i = 0; i < nfree && i < 100000; ++i) {
    auto id = al->allocate();
    if (id.value >= end0 || al->end() != end0) { reuse_ok = false; break; }      // minted although freed values exist
    if (want.count(id.value) || !got.insert(id.value).second) { dup = true; break; }
  }
  if (reuse_ok && !dup) { auto id = al->allocate(); if (id.value != end0) dup = true; }
  printf("%s ok steps=%llu | %s | unique=%d foreach=%d reuse=%d headmono=%d pushcount=%d\n", cid, (unsigned long long)r.steps,
         out.c_str(), !dup, foreach_ok, reuse_ok, headmono, pushcount);
  fflush(stdout);
  delete al;
}

// -------------------------------------------------------------------------------------------- deposit box
typedef DepositBox<uint64_t> Box;
static void run_box(const char* cid, unsigned long long seed, int strategy, const std::string& choices,
                    const std::string& setup, const std::string& prog) {
  auto threads = parse_prog(setup, prog);
  Box* box = new Box();                                 // private constructor: compiled with -fno-access-control
  std::vector<VersionedValue<uint32_t>> ids; std::vector<uint64_t> payload; std::vector<int> attempts, wins;
  std::map<uint32_t, int> slot_owner;                   // slot value -> index of the id that occupies it
  std::vector<std::vector<size_t>> taken(threads.size());
  uint64_t serial = 1000; bool dup = false, payload_ok = true, stale_ok = true;
  // holders: the real Accessor objects plus, as `shadow`, the index of the id each one is supposed to hold (-1: none)
  struct Holder { std::optional<Box::Accessor> a; long shadow = -1; };
  std::vector<std::vector<Holder>> holders(threads.size());
  for (auto& hs : holders) { hs.resize(3); for (auto& H : hs) H.a.emplace(); }
  // the item H is supposed to hold is about to be given back by the next statement
  bool headmono = true; unsigned long last_ver = 0, pushes = 0;
  auto watch_head = [&] { unsigned long v = box->_slot_id_allocator._free_head.version; if (v < last_ver) headmono = false; last_ver = v; };
  auto expect_finish = [&](Holder& H) {
    if (H.shadow < 0) return;
    pushes++;
    size_t k = (size_t)H.shadow;
    if (!(bool)*H.a || **H.a != payload[k]) payload_ok = false;   // a held item was lost / overwritten
    slot_owner.erase(ids[k].value);
    H.shadow = -1;
  };
  auto exec = [&](size_t t, Op& op) {
    struct AtExit { std::function<void()> f; ~AtExit() { f(); } } at_exit{watch_head};
    if (op.k == 'E') {
      uint64_t p = ++serial;
      auto id = box->emplace(p);
      if (slot_owner.count(id.value)) dup = true;
      for (auto& o : ids) if (o.value == id.value && o.version == id.version) stale_ok = false;  // id handed out twice
      slot_owner[id.value] = (int)ids.size();
      ids.push_back(id); payload.push_back(p); attempts.push_back(0); wins.push_back(0);
      op.res = std::to_string(id.value) + "@" + std::to_string(id.version);
    } else if (op.k == 'T') {
      if ((size_t)op.arg >= ids.size()) { op.res = "-"; return; }
      size_t k = op.arg; attempts[k]++;
      uint64_t* p = box->take_released(ids[k]);
      if (p) { wins[k]++; if (*p != payload[k]) payload_ok = false; taken[t].push_back(k); }
      op.res = p ? "1" : "0";
    } else if (op.k == 'R') {
      if (taken[t].empty()) { op.res = "-"; return; }
      size_t k = taken[t].front(); taken[t].erase(taken[t].begin());
      slot_owner.erase(ids[k].value);
      box->finish_released(ids[k]);
      pushes++;
      op.res = "r";
    } else if (op.k == 'K') {
      if ((size_t)op.arg2 >= ids.size()) { op.res = "-"; return; }
      Holder& H = holders[t][op.arg % 3]; size_t k = op.arg2; attempts[k]++;
      expect_finish(H);                                  // what H held dies with the temporary
      *H.a = box->take(ids[k]);
      bool ok = (bool)*H.a;
      if (ok) { wins[k]++; if (**H.a != payload[k]) payload_ok = false; H.shadow = (long)k; }
      op.res = ok ? "1" : "0";
    } else if (op.k == 'M') {
      Holder& H = holders[t][op.arg % 3]; Holder& G = holders[t][op.arg2 % 3];
      *H.a = std::move(*G.a);
      if (&H != &G) std::swap(H.shadow, G.shadow);
      if (H.shadow >= 0 && (!(bool)*H.a || **H.a != payload[H.shadow])) payload_ok = false;
      op.res = "a";
    } else if (op.k == 'C') {
      Holder& H = holders[t][op.arg % 3]; Holder& G = holders[t][op.arg2 % 3];
      if (&H == &G || H.shadow >= 0) { op.res = "-"; return; }
      H.a.reset(); H.a.emplace(std::move(*G.a));
      H.shadow = G.shadow; G.shadow = -1;
      if (H.shadow >= 0 && (!(bool)*H.a || **H.a != payload[H.shadow])) payload_ok = false;
      op.res = "a";
    } else if (op.k == 'D') {
      Holder& H = holders[t][op.arg % 3];
      expect_finish(H);
      H.a.reset(); H.a.emplace();
      op.res = "a";
    } else op.res = "?";
  };
  for (auto& op : threads[0]) exec(0, op);
  std::vector<std::function<void()>> bodies;
  for (size_t t = 1; t < threads.size(); ++t) bodies.push_back([&, t] { for (auto& op : threads[t]) exec(t, op); });
  verif::Options opt; opt.seed = seed; opt.strategy = strategy; opt.choices = parse_choices(choices); opt.max_steps = 4000000;
  verif::Result r = verif::run(bodies, opt);
  std::set<uint32_t> live, want; bool ranges_ok = collect_live<IdAllocator<uint32_t>, uint32_t>(box->_slot_id_allocator, live);
  for (auto& kv : slot_owner) want.insert(kv.first);
  uint32_t end0 = box->_slot_id_allocator.end();
  bool pushcount = box->_slot_id_allocator._free_head.version == (uint32_t)pushes;
  std::string out = join_results(threads) + " live=" + show_set(live) + " end=" + std::to_string(end0);
  bool foreach_ok = ranges_ok && live == want;
  // post phase (quiescent, sequential): every id not yet taken yields its item exactly once; every id already
  // taken never matches again while its slot is reused over and over
  for (size_t k = 0; k < ids.size(); ++k) if (!wins[k]) {
    attempts[k]++; uint64_t* p = box->take_released(ids[k]);
    if (p) { wins[k]++; if (*p != payload[k]) payload_ok = false; slot_owner.erase(ids[k].value); box->finish_released(ids[k]); }
  }
  for (size_t t = 0; t < taken.size(); ++t) for (size_t k : taken[t]) { slot_owner.erase(ids[k].value); box->finish_released(ids[k]); }
  for (auto& hs : holders) for (auto& H : hs) { expect_finish(H); H.a.reset(); }      // all accessors die
  bool onewin = true;
  for (size_t k = 0; k < ids.size(); ++k) if (wins[k] > 1 || (attempts[k] >= 1 && wins[k] != 1)) onewin = false;
  std::vector<VersionedValue<uint32_t>> stale = ids;
  for (int cyc = 0; cyc < 48; ++cyc) {
    auto id = box->emplace(7777 + cyc);
    for (auto& o : stale) if (o.value == id.value && o.version == id.version) stale_ok = false;
    for (auto& o : stale) if (box->take_released(o)) stale_ok = false;
    uint64_t* p = box->take_released(id);
    if (!p || *p != (uint64_t)(7777 + cyc)) onewin = false;
    if (box->take_released(id)) stale_ok = false;
    if (p) box->finish_released(id);
    stale.push_back(id);
  }
  // everything has been taken and finished exactly once: nothing may be reported live, and the free list gives back
  // exactly end values, all different, before anything new is minted
  bool reuse_ok = true;
  {
    std::set<uint32_t> live2; if (!collect_live<IdAllocator<uint32_t>, uint32_t>(box->_slot_id_allocator, live2) || !live2.empty()) foreach_ok = false;
    uint32_t end1 = box->_slot_id_allocator.end(); std::set<uint32_t> got;
    for (uint32_t i = 0; i < end1 && i < 100000; ++i) {
      auto id = box->_slot_id_allocator.allocate();
      if (id.value >= end1 || box->_slot_id_allocator.end() != end1) { reuse_ok = false; break; }   // a finish was lost
      if (!got.insert(id.value).second) { dup = true; break; }                                      // a slot finished twice
    }
  }
  printf("%s ok steps=%llu | %s | unique=%d foreach=%d onewin=%d stale=%d payload=%d reuse=%d headmono=%d pushcount=%d\n", cid,
         (unsigned long long)r.steps, out.c_str(), !dup, foreach_ok, onewin, stale_ok, payload_ok, reuse_ok, headmono, pushcount);
  fflush(stdout);
  // Box has no public destructor either; leak it (one per case).
}

// ---------------------------------------------------------------------------------------------- thread ids
struct TagA {}; struct TagB {}; struct TagC {};
template <typename TID, typename Tag>
static void run_threads(const char* cid, unsigned long long seed, int strategy, const std::string& script) {
  struct Child { std::thread th; bool has_id = false, exit_flag = false, done = false, stable = true; uint16_t value = 0, version = 0; };
  std::vector<Child*> children; std::vector<size_t> alive;   // alive: indices in birth order
  std::map<uint16_t, size_t> holder; bool dup = false, foreach_ok = true, reuse_ok = true, stable = true;
  std::string trace;
  auto child_body = [&](size_t i) {
    Child* c = children[i];
    auto id = TID::template current_thread_id<Tag>();
    if (holder.count(id.value)) dup = true;              // another live thread has this value
    holder[id.value] = i; c->value = id.value; c->version = id.version; c->has_id = true;
    while (!c->exit_flag) {
      sched_yield();
      auto again = TID::template current_thread_id<Tag>();
      if (again.value != c->value || again.version != c->version) c->stable = false;
    }
    holder.erase(c->value);                               // gives the value up: the thread_local destructor runs next
    c->done = true;
  };
  auto check_foreach = [&] {
    std::set<uint16_t> live, want; bool ok = true; long last = -1;
    TID::template for_each<Tag>([&](uint16_t b, uint16_t e) {
      if (!(b < e) || (long)b < last) ok = false; last = e;
      for (uint16_t v = b; v < e; ++v) if (!live.insert(v).second) ok = false;
    });
    for (auto& kv : holder) want.insert(kv.first);
    if (!ok || live != want) foreach_ok = false;
    trace += "q" + std::to_string(live.size()) + (ok && live == want ? "" : "!") + ",";
  };
  auto spawn = [&] {
    size_t i = children.size(); children.push_back(new Child());
    children[i]->th = std::thread([&, i] { child_body(i); });
    alive.push_back(i);
    return i;
  };
  std::vector<std::function<void()>> bodies;
  bodies.push_back([&] {
    for (auto& cmd : split(script, ',')) {
      long n = cmd.size() > 1 ? atol(cmd.c_str() + 1) : 0;
      if (cmd[0] == 'b') {
        std::vector<size_t> born; for (long j = 0; j < n; ++j) born.push_back(spawn());
        for (size_t i : born) while (!children[i]->has_id) sched_yield();
        trace += "b" + std::to_string(n) + ",";
      } else if (cmd[0] == 's') {
        for (long j = 0; j < n; ++j) {                   // quiescent here: no allocate/deallocate in progress
          uint16_t end_before = TID::template end<Tag>(); size_t live_before = holder.size();
          size_t i = spawn();
          while (!children[i]->has_id) sched_yield();
          if (end_before > live_before && TID::template end<Tag>() != end_before) reuse_ok = false;   // minted though freed values exist
          if (end_before > live_before && children[i]->value >= end_before) reuse_ok = false;
        }
        trace += "s" + std::to_string(n) + ",";
      } else if (cmd[0] == 'x') {
        std::vector<size_t> go;
        for (long j = 0; j < n && !alive.empty(); ++j) { go.push_back(alive.front()); alive.erase(alive.begin()); }
        for (size_t i : go) children[i]->exit_flag = true;
        for (size_t i : go) children[i]->th.join();      // join returns after the thread_local destructors ran
        trace += "x" + std::to_string(go.size()) + ",";
      } else if (cmd[0] == 'q') {
        check_foreach();
      }
    }
    for (size_t i : alive) children[i]->exit_flag = true;
    for (size_t i : alive) children[i]->th.join();
    alive.clear();
    check_foreach();                                     // nobody alive: nothing may be reported
  });
  verif::Options opt; opt.seed = seed; opt.strategy = strategy; opt.max_steps = 4000000;
  verif::Result r = verif::run(bodies, opt);
  for (auto c : children) { if (!c->stable) stable = false; delete c; }
  printf("%s ok steps=%llu | %s end=%u | unique=%d foreach=%d reuse=%d stable=%d\n", cid, (unsigned long long)r.steps,
         trace.c_str(), (unsigned)TID::template end<Tag>(), !dup, foreach_ok, reuse_ok, stable);
  fflush(stdout);
}

// ----------------------------------------------------------------------------- staged version wrap (uint16_t)
// free list [0,1], head (0,2).  T0 starts allocate() and is pre-empted after `split` scheduling points; T1 takes 0
// and 1, gives 0 back and then cycles allocate/deallocate until `pushes` pushes happened in total; T0 resumes.
// If the 16-bit version has come back to 2 while T0 sat between its loads and its CAS, T0's CAS succeeds with a
// stale link and value 1 (held by T1) is handed out a second time.
static void run_wrap(const char* cid, long pushes, int split_points) {
  auto* al = new IdAllocator<uint16_t>();
  { auto a = al->allocate(); auto b = al->allocate(); al->deallocate(b); al->deallocate(a); }
  std::map<uint16_t, int> owner; bool dup = false; std::string got;
  auto take = [&](int t) { auto id = al->allocate(); if (owner.count(id.value)) dup = true; owner[id.value] = t; return id; };
  auto give = [&](VersionedValue<uint16_t> id) { owner.erase(id.value); al->deallocate(id); };
  std::vector<std::function<void()>> bodies;
  bodies.push_back([&] { auto x = take(0); auto y = take(0); got = std::to_string(x.value) + "@" + std::to_string(x.version) + "," + std::to_string(y.value) + "@" + std::to_string(y.version); });
  bodies.push_back([&] {
    auto p = take(1); auto q = take(1); (void)q;
    give(p);
    for (long i = 1; i < pushes; ++i) { auto r = take(1); give(r); }
  });
  verif::Options opt; opt.seed = 1; opt.strategy = 2; opt.max_steps = 400000000ull;
  opt.choices.push_back(0);
  for (int i = 0; i < split_points; ++i) opt.choices.push_back(0);
  opt.choices.push_back(1);
  verif::Result r = verif::run(bodies, opt);
  printf("%s ok steps=%llu | t0=%s pushes=%ld split=%d | unique=%d\n", cid, (unsigned long long)r.steps, got.c_str(), pushes,
         split_points, !dup);
  fflush(stdout);
  delete al;
}

// ------------------------------------------------------------------ sequential bulk histories (for_each exactness)
// mint n ids, then free every id whose value is a multiple of freemod plus a run of 130 values that crosses a block
// boundary, then take half of the freed values back, then free the top 130; after every phase for_each must report
// exactly the values held.  n is chosen around the 128-cell block size and around the capacity at which the 16-bit
// table is complete (65408 / 65536).
template <typename T>
static void run_seq(const char* cid, long n, long freemod) {
  auto* al = new IdAllocator<T>();
  std::map<T, VersionedValue<T>> held; bool dup = false, exact = true, reuse_ok = true; std::string trace, fail;
  auto check = [&](const char* phase) {
    std::set<T> live, want; bool ok = collect_live<IdAllocator<T>, T>(*al, live);
    for (auto& kv : held) want.insert(kv.first);
    trace += std::string(phase) + "=" + std::to_string(live.size()) + ",";
    if ((!ok || live != want) && exact) {
      exact = false;
      fail = std::string(" FAIL@") + phase + ":held=" + std::to_string(want.size()) + ",reported=" + std::to_string(live.size()) + ",end=" + std::to_string((unsigned long)al->end());
    }
  };
  for (long i = 0; i < n; ++i) { auto id = al->allocate(); if (held.count(id.value)) dup = true; held[id.value] = id; }
  if ((long)al->end() != n) reuse_ok = false;
  check("full");
  std::vector<T> freed;
  long bs = n > 400 ? ((n - 200) / 128) * 128 - 60 : n / 3;
  for (long v = 0; v < n; ++v)
    if (held.count((T)v) && ((freemod > 0 && v % freemod == 0) || (v >= bs && v < bs + 130))) { al->deallocate(held[(T)v]); held.erase((T)v); freed.push_back((T)v); }
  check("freed");
  std::set<T> fs(freed.begin(), freed.end());
  for (size_t i = 0; i < freed.size() / 2; ++i) {
    auto id = al->allocate();
    if (!fs.count(id.value) || (long)al->end() != n) reuse_ok = false;    // minted although freed values exist
    if (held.count(id.value)) dup = true;
    held[id.value] = id;
  }
  check("reused");
  for (long v = n - 1; v >= 0 && v >= n - 130; --v) if (held.count((T)v)) { al->deallocate(held[(T)v]); held.erase((T)v); }
  check("top-freed");
  while (!held.empty()) { al->deallocate(held.begin()->second); held.erase(held.begin()); }
  check("empty");
  printf("%s ok steps=0 | n=%ld %s%s | unique=%d foreach-exact=%d reuse=%d\n", cid, n, trace.c_str(), fail.c_str(), !dup, exact, reuse_ok);
  fflush(stdout);
  delete al;
}

int main(int argc, char** argv) {
  static char line[1 << 16];
  while (fgets(line, sizeof line, stdin)) {
    std::vector<std::string> w; { std::stringstream ss(line); std::string x; while (ss >> x) w.push_back(x); }
    if (w.size() < 2) continue;
    const char* cid = w[0].c_str();
    if (w[1] == "AL" && w.size() == 8) {
      if (w[2] == "16") run_alloc<uint16_t>(cid, strtoull(w[3].c_str(), 0, 10), atoi(w[4].c_str()), w[5], w[6], w[7]);
      else run_alloc<uint32_t>(cid, strtoull(w[3].c_str(), 0, 10), atoi(w[4].c_str()), w[5], w[6], w[7]);
    } else if (w[1] == "DB" && w.size() == 7) {
      run_box(cid, strtoull(w[2].c_str(), 0, 10), atoi(w[3].c_str()), w[4], w[5], w[6]);
    } else if (w[1] == "TH" && w.size() == 6) {
      unsigned long long seed = strtoull(w[2].c_str(), 0, 10); int st = atoi(w[3].c_str());
      if (w[4] == "A") run_threads<ThreadId, TagA>(cid, seed, st, w[5]);
      else if (w[4] == "B") run_threads<LeakyThreadId, TagB>(cid, seed, st, w[5]);
      else run_threads<ThreadId, TagC>(cid, seed, st, w[5]);
    } else if (w[1] == "SEQ" && w.size() == 5) {
      if (w[2] == "16") run_seq<uint16_t>(cid, atol(w[3].c_str()), atol(w[4].c_str()));
      else run_seq<uint32_t>(cid, atol(w[3].c_str()), atol(w[4].c_str()));
    } else if (w[1] == "WRAP" && w.size() == 4) {
      run_wrap(cid, atol(w[2].c_str()), atoi(w[3].c_str()));
    } else {
      printf("%s bad-case-line\n", cid); fflush(stdout);
    }
  }
  return 0;
}
