// C10 driver: the real babylon::GarbageCollector<R> (with its real Epoch and ConcurrentBoundedQueue and its own
// collector std::thread, created through the interposed pthread_create) under the deterministic scheduler.
// Built with -fno-access-control so that the monitors can read slot versions / queue indices without a
// scheduling point; nothing of /repo is edited.
// stdin lines:  <case-id> <sched-seed> <strategy> <step-ns> <min-capacity>[@<E>] <program>
//   @<E>: fast-forward - the queue is put (before the run) in the state it has after E full turns of the ring: push and
//         pop index = E * capacity, every slot version = (2 * E) mod 2^16; E = 32767 makes the next turn cross the 16-bit
//         wrap of the slot versions (unreachable by plain running: 32768 * capacity retirements)
//   program = threads separated by '|', ops separated by ',' ; thread t owns Accessor t (created before the run):
//     R      gc.retire(reclaimer)           R<n>: n retirements in a row (one result "R")
//     L / U  accessor.lock() / unlock()     (U without a lock held is skipped: "-")
//     B      gc.start()
//     S      gc.stop()
//     W      client-side barrier: wait (usleep polling) until every other client thread has finished
//     Z<us>  usleep(us) (the thread really sleeps on the virtual clock; not in the model)
//     P<us>  slow reclaimers: from now on every reclaimer call whose ordinal is 120 mod 128 sleeps <us> virtual us inside the call
//     Q<n>   wait (usleep polling) until at least n reclaimer calls have been made (aims a thread into the middle of a batch)
//     A<us>  let virtual time pass
// stdout: <case-id> ok steps=.. pre=.. | <per-op results> calls=<thread.op@open-slots,...> | <monitor verdicts> ; details
#include "shim/prelude.h"
#include "babylon/concurrent/garbage_collector.h"

#include <cstdio>
#include <cstring>
#include <sstream>

using namespace babylon;

struct Retired {
  int t, i, k;                       // thread, op index, repetition
  uint64_t b = 0, e = 0;             // stamps of retire() call / return
  std::vector<std::pair<int, long>> blockers;   // (accessor, region sequence) open when retire() was called
  int calls = 0;
  bool dropped = false;              // the functor holding it was destroyed without having been called
  bool early = false;
};

struct World {
  std::vector<Retired> retired;
  std::vector<int> call_order;       // index into retired
  std::vector<std::string> call_open;
  std::vector<long> depth, seq;
  std::vector<char> entered, closing;
  GarbageCollector<struct Reclaimer>* gc = nullptr;
  int nslots = 0;
  unsigned slow_us = 0;
  std::string open_slots();
  bool region_open(int a, long s) { return seq[a] == s && depth[a] >= 1 && entered[a] && !closing[a]; }
};
static World* W = nullptr;

struct Reclaimer {
  int id = -1;
  bool armed = false;
  Reclaimer() = default;
  explicit Reclaimer(int id) : id(id), armed(true) {}
  Reclaimer(Reclaimer&& o) noexcept : id(o.id), armed(o.armed) { o.armed = false; }
  Reclaimer& operator=(Reclaimer&& o) noexcept {
    if (this != &o) { drop(); id = o.id; armed = o.armed; o.armed = false; }
    return *this;
  }
  Reclaimer(const Reclaimer&) = delete;
  Reclaimer& operator=(const Reclaimer&) = delete;
  ~Reclaimer() { drop(); }
  void drop() { if (armed && id >= 0 && W) { W->retired[id].dropped = true; } armed = false; }
  void operator()() {
    verif::point(verif::K_USER, 0, nullptr, "reclaimer", 0);
    Retired& r = W->retired[id];
    r.calls++;
    armed = false;
    for (auto& b : r.blockers) if (W->region_open(b.first, b.second)) r.early = true;
    W->call_order.push_back(id);
    W->call_open.push_back(W->open_slots());
    if (W->slow_us && (W->call_order.size() - 1) % 128 == 120) usleep(W->slow_us);   // every call is a scheduling point; this one is long
  }
};

std::string World::open_slots() {
  std::string s;
  for (int a = 0; a < nslots; ++a) {
    uint64_t v = static_cast<std::verif_atomic<uint64_t>::B&>(gc->_epoch._slots[a].version).load(std::memory_order_relaxed);
    if (v != UINT64_MAX) s += (s.empty() ? "" : ".") + std::to_string(a);
  }
  return s;
}

struct Op { char k; long arg; std::string res; uint64_t b = 0, e = 0; bool joined = false; };

int main(int, char**) {
  static char line[1 << 16];
  while (fgets(line, sizeof line, stdin)) {
    char id[64], prog[60000];
    unsigned long long seed, step_ns; int strategy; unsigned long mincap; char capspec[64];
    if (sscanf(line, "%63s %llu %d %llu %63s %59999s", id, &seed, &strategy, &step_ns, capspec, prog) != 6) continue;
    mincap = strtoul(capspec, nullptr, 10);
    const size_t turns = strchr(capspec, '@') ? strtoull(strchr(capspec, '@') + 1, nullptr, 10) : 0;
    std::vector<std::vector<Op>> threads;
    {
      std::stringstream ss(prog); std::string th;
      while (std::getline(ss, th, '|')) {
        std::vector<Op> ops; std::stringstream s2(th); std::string o;
        while (std::getline(s2, o, ',')) if (!o.empty()) ops.push_back(Op{o[0], o.size() > 1 ? atol(o.c_str() + 1) : 0, ""});
        threads.push_back(ops);
      }
      if (prog[strlen(prog) - 1] == '|') threads.push_back({});
    }
    const int NT = (int)threads.size();
    long total_retires = 0;
    for (auto& th : threads) for (auto& o : th) if (o.k == 'R') total_retires += o.arg > 0 ? o.arg : 1;
    World w; W = &w;
    w.depth.assign(NT, 0); w.seq.assign(NT, 0); w.entered.assign(NT, 0); w.closing.assign(NT, 0);
    w.nslots = NT;
    w.retired.reserve(1 << 16);
    auto* gc = new GarbageCollector<Reclaimer>();
    w.gc = gc;
    gc->set_queue_capacity(mincap);
    const size_t cap = gc->_queue.capacity();
    if (turns) {   // as if `turns` full turns of the ring had been pushed and popped
      gc->_queue._next_push_index.store(turns * cap, std::memory_order_relaxed);
      gc->_queue._next_pop_index.store(turns * cap, std::memory_order_relaxed);
      for (size_t i = 0; i < cap; ++i) gc->_queue._slots.futex(i)._futex.value().store((uint32_t)((2 * turns) & 0xFFFF), std::memory_order_relaxed);
    }
    std::vector<Epoch::Accessor> acc;
    for (int t = 0; t < NT; ++t) acc.push_back(gc->epoch().create_accessor());
    size_t pushes_returned = turns * cap;
    bool qbound = true, bound = true;
    const size_t batch = std::min<size_t>(1024, cap);
    auto raw_pop = [&] { return static_cast<std::verif_atomic<size_t>::B&>(gc->_queue._next_pop_index).load(std::memory_order_relaxed); };
    size_t ncalls_at_drop = 0; (void)ncalls_at_drop;
    struct StopRec { uint64_t b, e; bool joined; std::vector<int> missing, missing_noregion; };
    struct Region { int a; uint64_t b, e; };   // widest interval: before lock() was called .. after unlock() returned
    std::vector<Region> regions;
    std::vector<long> region_of(NT, -1);
    std::vector<StopRec> stops;
    int finished = 0;

    std::vector<std::function<void()>> bodies;
    for (int t = 0; t < NT; ++t) {
      bodies.push_back([&, t] {
        for (size_t i = 0; i < threads[t].size(); ++i) {
          Op& op = threads[t][i];
          op.b = verif::stamp();
          switch (op.k) {
            case 'R': {
              long n = op.arg > 0 ? op.arg : 1;
              for (long k = 0; k < n; ++k) {
                int rid = (int)w.retired.size();
                w.retired.push_back(Retired{t, (int)i, (int)k});
                Retired& r = w.retired[rid];
                for (int a = 0; a < NT; ++a) if (w.region_open(a, w.seq[a])) r.blockers.push_back({a, w.seq[a]});
                r.b = verif::stamp();
                gc->retire(Reclaimer(rid));
                w.retired[rid].e = verif::stamp();
                pushes_returned++;
                if (pushes_returned > raw_pop() + cap) {
                  // retire() returned on a full queue: an unpopped task was overwritten.  The collector usually stalls for ever
                  // afterwards, so report the verdict now (the scheduler run cannot be unwound) and leave.
                  printf("DSCHED-STUCK overfull-push case=%s cap=%zu turns=%zu pushes-returned=%zu popped=%zu calls=%zu (thread %d op %zu)\n",
                         id, cap, turns, pushes_returned, raw_pop(), w.call_order.size(), t, i);
                  fflush(stdout);
                  _exit(3);
                }
                size_t done = 0;
                for (auto& x : w.retired) if (x.calls > 0 || x.dropped) done++;
                if (w.retired.size() - done > cap + batch + (size_t)NT) bound = false;
              }
              op.res = "R";
            } break;
            case 'L':
              if (w.depth[t] == 0) { regions.push_back(Region{t, verif::stamp(), 0}); region_of[t] = (long)regions.size() - 1; }
              acc[t].lock();
              w.depth[t] += 1;
              if (w.depth[t] == 1) w.entered[t] = 1;
              op.res = "L";
              break;
            case 'U':
              if (w.depth[t] >= 1) {
                if (w.depth[t] == 1) w.closing[t] = 1;
                acc[t].unlock();
                w.depth[t] -= 1;
                if (w.depth[t] == 0) { w.entered[t] = 0; w.closing[t] = 0; w.seq[t] += 1; regions[region_of[t]].e = verif::stamp(); }
                op.res = "U";
              } else { verif::point(verif::K_USER, 0, nullptr, "skip", 0); op.res = "-"; }
              break;
            case 'B': {
              bool j = gc->_gc_thread.joinable();
              gc->start();
              op.res = j ? "B0" : "B1";
            } break;
            case 'S': {
              bool j = gc->_gc_thread.joinable();
              StopRec sr{verif::stamp(), 0, j, {}, {}};
              gc->stop();
              sr.e = verif::stamp();
              if (j) pushes_returned++;
              op.joined = j;
              // obligation: everything retired before this stop() began has been called by now
              if (j) for (size_t x = 0; x < w.retired.size(); ++x) {
                Retired& r = w.retired[x];
                if (r.e != 0 && r.e < sr.b && r.calls == 0) {
                  bool raced_earlier = false;
                  for (auto& s0 : stops) if (s0.joined && r.b < s0.e && r.e > s0.b) raced_earlier = true;
                  // finding F2 needs a region that was entered before the retirement and is open during this stop()
                  bool region = false;
                  for (auto& g : regions) if (g.b < r.e && g.b < sr.e && (g.e == 0 || g.e > sr.b)) region = true;
                  if (!raced_earlier) (region ? sr.missing : sr.missing_noregion).push_back((int)x);
                }
              }
              stops.push_back(sr);
              op.res = std::string("S") + (j ? "1" : "0") + ":" + std::to_string(w.call_order.size());
            } break;
            case 'W':
              while (finished < NT - 1) usleep(200);
              op.res = "W";
              break;
            case 'Z': usleep((useconds_t)op.arg); op.res = "Z"; break;
            case 'P': w.slow_us = (unsigned)op.arg; verif::point(verif::K_USER, 0, nullptr, "slow", 0); op.res = "P"; break;
            case 'Q': while ((long)w.call_order.size() < op.arg) usleep(50); op.res = "Q"; break;
            case 'A': verif::advance_time((uint64_t)op.arg * 1000); op.res = "A"; break;
            default: op.res = "?";
          }
          op.e = verif::stamp();
        }
        finished++;
      });
    }
    verif::Options opt; opt.seed = seed; opt.strategy = strategy; opt.max_steps = 300000 + 600 * (uint64_t)total_retires; opt.step_ns = step_ns ? step_ns : 50;
    verif::Result r = verif::run(bodies, opt);
    bool still_joinable = gc->_gc_thread.joinable();
    acc.clear();
    if (!still_joinable) delete gc;   // (a collector left running cannot be joined outside the scheduler: reported below)
    w.gc = nullptr;

    std::string out;
    for (int t = 0; t < NT; ++t) {
      for (size_t i = 0; i < threads[t].size(); ++i) out += threads[t][i].res + (i + 1 < threads[t].size() ? "," : "");
      out += (t + 1 < NT ? "|" : "");
    }
    out += " calls=";
    for (size_t c = 0; c < w.call_order.size(); ++c) {
      Retired& x = w.retired[w.call_order[c]];
      out += (c ? "," : "") + std::to_string(x.t) + "." + std::to_string(x.i) + (x.k ? ("#" + std::to_string(x.k)) : "") + "@" + w.call_open[c];
    }
    bool once = true, notearly = true, stopall = true, stopallnr = true, racing = true;
    std::string d_once, d_early, d_stop, d_stopnr, d_race, d_late;
    auto name = [&](Retired& x) { return std::to_string(x.t) + "." + std::to_string(x.i) + (x.k ? ("#" + std::to_string(x.k)) : ""); };
    for (auto& x : w.retired) {
      if (x.calls > 1) { once = false; d_once += name(x) + "x" + std::to_string(x.calls) + " "; }
      if (x.early) { notearly = false; d_early += name(x) + " "; }
    }
    for (auto& s : stops) for (int x : s.missing) { stopall = false; if (d_stop.size() < 200) d_stop += name(w.retired[x]) + " "; }
    for (auto& s : stops) for (int x : s.missing_noregion) { stopallnr = false; if (d_stopnr.size() < 200) d_stopnr += name(w.retired[x]) + " "; }
    // order of calls: one collector thread, FIFO queue: calls of one client thread's retirements keep their order
    bool fifo = true;
    {
      std::vector<int> last(NT, -1);
      for (int c : w.call_order) { Retired& x = w.retired[c]; if (c < last[x.t]) fifo = false; last[x.t] = c; }
    }
    for (auto& x : w.retired) {
      if (x.calls != 0 || x.e == 0) continue;
      bool raced = false, before_join = false;
      for (auto& s : stops) if (s.joined) { if (x.b < s.e && x.e > s.b) raced = true; if (x.e < s.b) before_join = true; }
      if (raced) { racing = false; if (d_race.size() < 200) d_race += name(x) + " "; }
      else if (!before_join) { if (d_late.size() < 200) d_late += name(x) + " "; }
    }
    printf("%s ok steps=%llu pre=%llu | %s | once=%d notearly=%d stopall=%d stopallnr=%d racing=%d fifo=%d qbound=%d bound=%d running=%d ; cap=%zu retired=%zu calls=%zu"
           " twice=[%s] early=[%s] uncalled-at-stop=[%s] uncalled-at-stop-no-region=[%s] raced-uncalled=[%s] late-uncalled=[%s]\n",
           id, (unsigned long long)r.steps, (unsigned long long)r.preemptions, out.c_str(), once, notearly, stopall, stopallnr, racing, fifo,
           qbound, bound, still_joinable ? 1 : 0, cap, w.retired.size(), w.call_order.size(), d_once.c_str(), d_early.c_str(),
           d_stop.c_str(), d_stopnr.c_str(), d_race.c_str(), d_late.c_str());
    fflush(stdout);
    W = nullptr;
  }
  return 0;
}
