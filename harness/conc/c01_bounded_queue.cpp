// C01/C02 driver: the real babylon::ConcurrentBoundedQueue<uint64_t> under the deterministic scheduler.
// stdin lines:  <case-id> <sched-seed> <strategy> <slot-bits> <flags> <program>
//   flags: bit 0 = futex_wait may return spuriously / with EINTR; bits 1.. = fast-forward code ff:
//   ff = 1/2/3 starts the queue as if E = 32767 / 32768 / 65535 full turns of the ring had already passed
//   (indices E*capacity, every slot version (2E) mod 2^16), so that the run crosses the 16-bit version wrap
//   program = threads separated by '|', ops separated by ','  (c,w,k = CONCURRENT, USE_FUTEX_WAIT, USE_FUTEX_WAKE as 0/1):
//     P<cwk>:<v>        push<c,w,k>(v)              O<cwk>          pop<c,w,k>
//     p<cwk>:<v>        try_push<c,k>(v)            o<cwk>          try_pop<c,k>
//     N<cwk>:<v;v;..>   push_n<c,w,k>               M<cwk>:<n>      pop_n<c,w,k>
//     n<cwk>:<v;v;..>   try_push_n<c,k>             m<cwk>:<n>      try_pop_n<c,k>
//     U<cwk>:<n>:<tmo>  try_pop_n_exclusively_until<k>(n, tmo * 10 ms)
//     X000:<v;v;..>     push_n(cb, reverse_cb, n)   (compensating: pops when full)
//     Y000:<n>          pop_n(cb, reverse_cb, n)    (compensating: pushes fillers >= 1000000 when empty)
//     D<cwk>            drain: try_pop<c,k> until every producer thread has finished and the queue is empty
//     A000:<ms>         let virtual time pass
//     g<cwk>            try_pop<c,k>, retried until it gets an element; its callback, holding the slot it was given, stays
//                       there until every producer thread has finished (producers of such programs only use try_ calls,
//                       so they always finish)
//     h<cwk>:<v>        try_push<c,k>(v), retried likewise; its callback stays in its slot until every thread issuing m ops
//                       has finished
//   a letter right after the flags picks the public overload (default: callback overload with template arguments):
//     v value / reference   q pointer   i iterators   d callback, no template arguments   e value, no template arguments
//     r pointer, no template arguments   j iterators, no template arguments     (the last four need flags 111 / try_: c=k=1)
//     the per-cell monitors (excl, state, publish) need callbacks: they are off in programs that use v q i e r j
//     H<cwk>:<v>        push<c,w,k>(v) with a slow callback: holding its index unpublished it lets virtual time pass
//                       until a timed pop (U) has returned, as long as one is still to return
// stdout: one line per case: <case-id> ok steps=<n> pre=<n> | <per-op results> | <monitor verdicts>
//   per-op result: <count>[:<v.v.v>]   (values popped by the op, in callback order)
#include "shim/prelude.h"
#include "babylon/concurrent/bounded_queue.h"

#include <cstdio>
#include <cstring>
#include <sstream>

using namespace babylon;
typedef ConcurrentBoundedQueue<uint64_t> Q;
typedef Q::Iterator IT;

struct Op {
  char k = 0; char en = 0; int fl = 0; std::vector<uint64_t> vals; size_t n = 0; long long arg = 0;
  size_t cnt = 0; std::vector<uint64_t> popped; std::vector<uint64_t> injected;   // injected: fillers pushed by Y
  size_t pushed_cnt = 0;
  uint64_t b = 0, e = 0, t0 = 0, t1 = 0; bool done = false;
};
struct Cell { int busy = 0; bool full = false; uint64_t val = 0; };

static std::map<const void*, Cell> cells;
static bool m_excl, m_state, m_publish, cells_on;
static uint64_t filler;

static void user_point() { verif::point(verif::K_USER, 0, nullptr, "callback", 0); }

static void cb_write(uint64_t& slot, uint64_t v, const std::function<bool()>* hold = nullptr) {
  if (!cells_on) { user_point(); if (hold) while ((*hold)()) sched_yield(); slot = v; user_point(); return; }
  Cell& c = cells[&slot];
  if (c.busy) m_excl = false;
  if (c.full) m_state = false;          // overwriting a value nobody consumed
  c.busy++;
  user_point();
  if (hold) while ((*hold)()) sched_yield();
  slot = v;
  c.full = true; c.val = v;
  user_point();
  c.busy--;
}
static uint64_t cb_read(uint64_t& slot, const std::function<bool()>* hold = nullptr) {
  if (!cells_on) { user_point(); if (hold) while ((*hold)()) sched_yield(); uint64_t v0 = slot; user_point(); return v0; }
  Cell& c = cells[&slot];
  if (c.busy) m_excl = false;
  if (!c.full) m_state = false;         // reading a cell that holds no unconsumed value
  c.busy++;
  user_point();
  if (hold) while ((*hold)()) sched_yield();
  uint64_t v = slot;
  if (c.full && v != c.val) m_publish = false;
  user_point();
  c.full = false;
  c.busy--;
  return v;
}

#define DISPATCH3(fl, CALL)                                                                     \
  switch (fl) {                                                                                 \
    case 0: CALL(false, false, false); break; case 1: CALL(false, false, true); break;          \
    case 2: CALL(false, true, false); break;  case 3: CALL(false, true, true); break;           \
    case 4: CALL(true, false, false); break;  case 5: CALL(true, false, true); break;           \
    case 6: CALL(true, true, false); break;   default: CALL(true, true, true); break;           \
  }

int main(int argc, char** argv) {
  static char line[1 << 16];
  while (fgets(line, sizeof line, stdin)) {
    char id[64]; static char prog[1 << 16];
    unsigned long long seed; int strategy, kbits, spurious;
    if (sscanf(line, "%63s %llu %d %d %d %65000s", id, &seed, &strategy, &kbits, &spurious, prog) != 6) continue;
    std::vector<std::vector<Op>> threads;
    {
      std::stringstream ss(prog); std::string th;
      while (std::getline(ss, th, '|')) {
        std::vector<Op> ops; std::stringstream s2(th); std::string o;
        while (std::getline(s2, o, ',')) {
          if (o.size() < 4) continue;
          Op op; op.k = o[0]; op.fl = (o[1] - '0') * 4 + (o[2] - '0') * 2 + (o[3] - '0');
          if (o.size() > 4 && o[4] != ':') op.en = o[4];
          std::vector<std::string> parts; { std::stringstream s3(o); std::string p; while (std::getline(s3, p, ':')) parts.push_back(p); }
          auto list = [&](const std::string& s) { std::vector<uint64_t> r; std::stringstream s4(s); std::string x; while (std::getline(s4, x, ';')) if (!x.empty()) r.push_back(strtoull(x.c_str(), 0, 10)); return r; };
          switch (op.k) {
            case 'P': case 'p': case 'H': case 'h': op.vals = list(parts.at(1)); op.n = 1; break;
            case 'N': case 'n': case 'X': if (parts.size() > 1) op.vals = list(parts[1]); op.n = op.vals.size(); break;
            case 'O': case 'o': case 'g': op.n = 1; break;
            case 'M': case 'm': case 'Y': op.n = strtoul(parts.at(1).c_str(), 0, 10); break;
            case 'U': op.n = strtoul(parts.at(1).c_str(), 0, 10); op.arg = atoll(parts.at(2).c_str()); break;
            case 'A': op.arg = atoll(parts.at(1).c_str()); break;
          }
          ops.push_back(op);
        }
        threads.push_back(ops);
      }
    }
    const size_t cap = (size_t)1 << kbits;
    // flags: bit 0 spurious futex returns, bits 1-2 fast-forward code, bits 3-5 transfer mode, bits 6.. prefill count.
    // Transfer (sequential, before the threads start): the queue is filled with `prefill` values (>= 900000) and then
    // handed over - 1: fresh.swap(filled)  2: move-constructed from filled  3: move-assigned into a queue of another
    // capacity that holds one element of its own  4: empty.swap(filled) called on the empty one - and the program
    // runs on the destination (5: recycle, see below); afterwards the other queue is drained too (it must hold exactly what the destination held, else conserve = 0).
    const int ff = (spurious >> 1) & 3, tm = (spurious >> 3) & 7;
    const size_t prefill = (size_t)(spurious >> 6);
    spurious &= 1;
    cells.clear();
    Op preop; preop.k = 'Z'; preop.done = true;
    auto ff_apply = [&](Q& x) {
      if (!ff) return;
      size_t E = ff == 1 ? 32767 : (ff == 2 ? 32768 : 65535);
      x._next_push_index.store(E * cap, std::memory_order_relaxed);
      x._next_pop_index.store(E * cap, std::memory_order_relaxed);
      for (size_t i = 0; i < cap; ++i)
        x._slots.futex(i)._futex.value().store((uint32_t)((2 * E) & 0xFFFF), std::memory_order_relaxed);
    };
    std::vector<uint64_t> junk, other_left;   // what the other queue must hold in the end / what it held
    auto fill = [&](Q& x, size_t n, bool is_junk = false) {
      for (size_t i = 0; i < n; ++i) {
        uint64_t v = (is_junk ? 800000 : 900000) + preop.vals.size() + junk.size();
        if (x.try_push<true, false>([&](uint64_t& s) { s = v; Cell& c = cells[&s]; c.full = true; c.val = v; })) (is_junk ? junk : preop.vals).push_back(v);
      }
    };
    Q* qa = new Q(cap);
    Q* qb = nullptr;
    Q* qrun = qa;
    switch (tm) {
      case 1: ff_apply(*qa); fill(*qa, prefill); qb = new Q(cap); qb->swap(*qa); qrun = qb; break;
      case 2: ff_apply(*qa); fill(*qa, prefill); qb = new Q(std::move(*qa)); qrun = qb; break;
      case 3: ff_apply(*qa); fill(*qa, prefill); qb = new Q(2 * cap); fill(*qb, 1, true); *qb = std::move(*qa); qrun = qb; break;
      case 4: qb = new Q(cap); ff_apply(*qb); fill(*qb, prefill); qa->swap(*qb); qrun = qa; break;
      // 5: recycle - the queue is used (prefill pushes and pops through its first slots, no bookkeeping) and then
      //    reserve_and_clear(same capacity) is called on it: it must stay usable (indexes and slot versions in step)
      case 5: ff_apply(*qa);
              for (size_t i = 0; i < prefill; ++i) {
                qa->try_push<true, false>([&](uint64_t& s) { s = 700000 + i; });
                qa->try_pop<true, false>([&](uint64_t&) {});
              }
              qa->reserve_and_clear(cap); break;
      default: ff_apply(*qa); break;
    }
    Q* qother = qrun == qa ? qb : qa;
    Q& q = *qrun;
    preop.n = preop.cnt = preop.pushed_cnt = preop.vals.size();
    m_excl = m_state = m_publish = true; filler = 1000000;
    cells_on = true;
    for (auto& th : threads) for (auto& o : th) if (o.en && strchr("vqierj", o.en)) cells_on = false;
    size_t producers = 0, producers_done = 0;
    // H = a blocking push whose callback is slow: having claimed its index it lets virtual time pass (0.1 ms at a time)
    // until a timed pop has RETURNED, as long as one is still to return.  A timed pop returns by its deadline whatever
    // the producers do, so this always ends - unless the timed pop sleeps without a deadline on the unpublished index.
    size_t u_done = 0, u_left = 0;
    for (auto& th : threads) for (auto& o : th) if (o.k == 'U') u_left++;
    for (auto& th : threads) { bool p = false; for (auto& o : th) if (strchr("PpNnXHh", o.k)) p = true; producers += p; }
    size_t mthreads = 0, mthreads_done = 0;
    for (auto& th : threads) { bool m = false; for (auto& o : th) if (o.k == 'm') m = true; mthreads += m; }
    std::function<bool()> hold_g = [&] { return producers_done < producers; };
    std::function<bool()> hold_h = [&] { return mthreads_done < mthreads; };
    std::vector<std::function<void()>> bodies;
    for (size_t t = 0; t < threads.size(); ++t) {
      bodies.push_back([&, t] {
        bool is_producer = false;
        for (auto& o : threads[t]) if (strchr("PpNnXHh", o.k)) is_producer = true;
        bool is_mthread = false;
        for (auto& o : threads[t]) if (o.k == 'm') is_mthread = true;
        for (size_t i = 0; i < threads[t].size(); ++i) {
          Op& op = threads[t][i];
          op.b = verif::stamp(); op.t0 = verif::now_ns();
          size_t vi = 0;
          auto wr1 = [&](uint64_t& s) { cb_write(s, op.vals[vi++]); };
          auto rd1 = [&](uint64_t& s) { op.popped.push_back(cb_read(s)); };
          auto wrh = [&](uint64_t& s) {
            size_t snap = u_done;
            while (u_done == snap && u_left > 0) verif::advance_time(100000ull);
            cb_write(s, op.vals[vi++]);
          };
          auto wrn = [&](IT b, IT e) {   // all cells of the range are held at once
            std::vector<uint64_t*> ps; for (IT it = b; it != e; ++it) ps.push_back(&*it);
            if (cells_on) for (auto p : ps) { Cell& c = cells[p]; if (c.busy) m_excl = false; if (c.full) m_state = false; c.busy++; }
            user_point();
            for (auto p : ps) { uint64_t v = op.vals[vi++]; *p = v; cells[p].full = true; cells[p].val = v; }
            user_point();
            for (auto p : ps) cells[p].busy--;
          };
          auto rdn = [&](IT b, IT e) {
            std::vector<uint64_t*> ps; for (IT it = b; it != e; ++it) ps.push_back(&*it);
            if (cells_on) for (auto p : ps) { Cell& c = cells[p]; if (c.busy) m_excl = false; if (!c.full) m_state = false; c.busy++; }
            user_point();
            for (auto p : ps) { uint64_t v = *p; if (cells_on && cells[p].full && v != cells[p].val) m_publish = false; op.popped.push_back(v); }
            user_point();
            for (auto p : ps) { cells[p].full = false; cells[p].busy--; }
          };
          auto rdg = [&](uint64_t& s) { op.popped.push_back(cb_read(s, &hold_g)); };
          auto wrhh = [&](uint64_t& s) { cb_write(s, op.vals[vi++], &hold_h); };
          uint64_t val = 0; bool okv = false;
          std::vector<uint64_t> buf;
          switch (op.k) {
            case 'P':
              switch (op.en) {
#define CALL(C, W, K) q.push<C, W, K>(val)
                case 'v': val = op.vals[vi++]; DISPATCH3(op.fl, CALL); break;
#undef CALL
                case 'd': q.push(wr1); break;
                case 'e': val = op.vals[vi++]; q.push(val); break;
#define CALL(C, W, K) q.push<C, W, K>(wr1)
                default: DISPATCH3(op.fl, CALL); break;
#undef CALL
              }
              op.cnt = 1; break;
#define CALL(C, W, K) q.push<C, W, K>(wrh)
            case 'H': DISPATCH3(op.fl, CALL); op.cnt = 1; break;
#undef CALL
            case 'O':
              switch (op.en) {
#define CALL(C, W, K) q.pop<C, W, K>(val)
                case 'v': DISPATCH3(op.fl, CALL); op.popped.push_back(val); break;
#undef CALL
#define CALL(C, W, K) q.pop<C, W, K>(&val)
                case 'q': DISPATCH3(op.fl, CALL); op.popped.push_back(val); break;
#undef CALL
                case 'd': q.pop(rd1); break;
                case 'e': q.pop(val); op.popped.push_back(val); break;
                case 'r': q.pop(&val); op.popped.push_back(val); break;
#define CALL(C, W, K) q.pop<C, W, K>(rd1)
                default: DISPATCH3(op.fl, CALL); break;
#undef CALL
              }
              op.cnt = 1; break;
            case 'p':
              switch (op.en) {
#define CALL(C, W, K) okv = q.try_push<C, K>(val)
                case 'v': val = op.vals[vi]; DISPATCH3(op.fl, CALL); if (okv) vi++; op.cnt = okv ? 1 : 0; break;
#undef CALL
#define CALL(C, W, K) op.cnt = q.try_push<C, K>(wr1) ? 1 : 0
                default: DISPATCH3(op.fl, CALL); break;
#undef CALL
              }
              break;
#define CALL(C, W, K) okv = q.try_push<C, K>(wrhh)
            case 'h':   // retried until it gets a slot (then it stays inside the callback) or the m-threads are gone
              while (true) { DISPATCH3(op.fl, CALL); if (okv) { op.cnt = 1; break; } if (!hold_h()) break; sched_yield(); }
              break;
#undef CALL
            case 'o':
              switch (op.en) {
#define CALL(C, W, K) okv = q.try_pop<C, K>(val)
                case 'v': DISPATCH3(op.fl, CALL); if (okv) op.popped.push_back(val); op.cnt = okv ? 1 : 0; break;
#undef CALL
                case 'd': op.cnt = q.try_pop(rd1) ? 1 : 0; break;
                case 'e': okv = q.try_pop(val); if (okv) op.popped.push_back(val); op.cnt = okv ? 1 : 0; break;
#define CALL(C, W, K) op.cnt = q.try_pop<C, K>(rd1) ? 1 : 0
                default: DISPATCH3(op.fl, CALL); break;
#undef CALL
              }
              break;
#define CALL(C, W, K) okv = q.try_pop<C, K>(rdg)
            case 'g':   // retried until it gets an element (then it stays inside the callback) or the producers are gone
              while (true) { DISPATCH3(op.fl, CALL); if (okv) { op.cnt = 1; break; } if (!hold_g()) break; sched_yield(); }
              break;
#undef CALL
            case 'N':
              switch (op.en) {
#define CALL(C, W, K) q.push_n<C, W, K>(buf.begin(), buf.end())
                case 'i': buf = op.vals; DISPATCH3(op.fl, CALL); vi = op.n; break;
#undef CALL
                case 'd': q.push_n(wrn, op.n); break;
                case 'j': buf = op.vals; q.push_n(buf.begin(), buf.end()); vi = op.n; break;
#define CALL(C, W, K) q.push_n<C, W, K>(wrn, op.n)
                default: DISPATCH3(op.fl, CALL); break;
#undef CALL
              }
              op.cnt = op.n; break;
            case 'M':
              switch (op.en) {
#define CALL(C, W, K) q.pop_n<C, W, K>(buf.begin(), buf.end())
                case 'i': buf.assign(op.n, 0); DISPATCH3(op.fl, CALL); op.popped = buf; break;
#undef CALL
                case 'd': q.pop_n(rdn, op.n); break;
                case 'j': buf.assign(op.n, 0); q.pop_n(buf.begin(), buf.end()); op.popped = buf; break;
#define CALL(C, W, K) q.pop_n<C, W, K>(rdn, op.n)
                default: DISPATCH3(op.fl, CALL); break;
#undef CALL
              }
              op.cnt = op.n; break;
#define CALL(C, W, K) op.cnt = q.try_push_n<C, K>(wrn, op.n)
            case 'n': DISPATCH3(op.fl, CALL); break;
#undef CALL
#define CALL(C, W, K) op.cnt = q.try_pop_n<C, K>(rdn, op.n)
            case 'm': DISPATCH3(op.fl, CALL); break;
#undef CALL
            case 'U': {
              uint64_t ns = (uint64_t)op.arg * 10000000ull;
              struct timespec ts = {(time_t)(ns / 1000000000ull), (long)(ns % 1000000000ull)};
              if (op.fl & 1) op.cnt = q.try_pop_n_exclusively_until<true>(rdn, op.n, &ts);
              else op.cnt = q.try_pop_n_exclusively_until<false>(rdn, op.n, &ts);
              u_done++; u_left--;
            } break;
            case 'X': {
              auto rc = [&](IT b, IT e) { rdn(b, e); };
              q.push_n(wrn, rc, op.n); op.cnt = op.n;
            } break;
            case 'Y': {
              auto rc = [&](IT b, IT e) {
                std::vector<uint64_t*> ps; for (IT it = b; it != e; ++it) ps.push_back(&*it);
                for (auto p : ps) { Cell& c = cells[p]; if (c.busy) m_excl = false; if (c.full) m_state = false; c.busy++; }
                user_point();
                for (auto p : ps) { uint64_t v = filler++; *p = v; cells[p].full = true; cells[p].val = v; op.injected.push_back(v); }
                user_point();
                for (auto p : ps) cells[p].busy--;
              };
              q.pop_n(rdn, rc, op.n); op.cnt = op.n;
            } break;
            case 'D': {
              while (true) {
                bool ok = false;
#define CALL(C, W, K) ok = q.try_pop<C, K>(rd1)
                DISPATCH3(op.fl, CALL);
#undef CALL
                if (ok) { op.cnt++; continue; }
                if (producers_done >= producers) {
                  bool again = false;
#define CALL(C, W, K) again = q.try_pop<C, K>(rd1)
                  DISPATCH3(op.fl, CALL);
#undef CALL
                  if (again) { op.cnt++; continue; }
                  break;
                }
                sched_yield();
              }
            } break;
            case 'A': verif::advance_time((uint64_t)op.arg * 1000000ull); break;
          }
          op.pushed_cnt = vi;
          op.t1 = verif::now_ns(); op.e = verif::stamp(); op.done = true;
        }
        if (is_producer) producers_done++;
        if (is_mthread) mthreads_done++;
      });
    }
    verif::Options opt; opt.seed = seed; opt.strategy = strategy; opt.max_steps = 100000; opt.spurious_futex = spurious != 0;
    verif::Result r = verif::run(bodies, opt);
    // drain what is left (unregistered thread: plain calls)
    std::vector<uint64_t> left;
    for (size_t i = 0; i < 4 * cap + 4; ++i) {
      uint64_t v = 0; bool full_before = false;
      if (!q.try_pop<true, false>([&](uint64_t& s) { Cell& c = cells[&s]; full_before = c.full; if (cells_on && !c.full) m_state = false; if (cells_on && c.full && s != c.val) m_publish = false; c.full = false; v = s; })) break;
      left.push_back(v);
    }
    if (qother && qother->capacity() != 0)
      for (size_t i = 0; i < 8 * cap + 8; ++i) {
        uint64_t v = 0;
        if (!qother->try_pop<true, false>([&](uint64_t& s) { cells[&s].full = false; v = s; })) break;
        other_left.push_back(v);
      }
    // ---- monitors over the recorded history ----
    struct Ev { uint64_t v; const Op* op; int pos; uint64_t b, e; };
    std::vector<Ev> pushes, pops;
    uint64_t inf = ~0ull;
    std::vector<const Op*> all;
    std::string out;
    if (!preop.vals.empty()) {
      all.push_back(&preop);
      for (size_t j = 0; j < preop.vals.size(); ++j) pushes.push_back(Ev{preop.vals[j], &preop, (int)j, 0, 0});
    }
    for (size_t t = 0; t < threads.size(); ++t) {
      for (size_t i = 0; i < threads[t].size(); ++i) {
        Op& op = threads[t][i];
        all.push_back(&op);
        bool comp = op.k == 'X' || op.k == 'Y';
        for (size_t j = 0; j < op.pushed_cnt && j < op.vals.size(); ++j) pushes.push_back(Ev{op.vals[j], &op, comp ? -1 : (int)j, op.b, op.e});
        for (size_t j = 0; j < op.injected.size(); ++j) pushes.push_back(Ev{op.injected[j], &op, -1, op.b, op.e});
        for (size_t j = 0; j < op.popped.size(); ++j) pops.push_back(Ev{op.popped[j], &op, comp || op.k == 'D' ? -1 : (int)j, op.b, op.e});
        char buf[64];
        if (strchr("XYDA", op.k)) snprintf(buf, sizeof buf, "%c%zu", op.k, op.cnt); else snprintf(buf, sizeof buf, "%zu", op.cnt);
        out += buf;
        if (!strchr("XYDA", op.k) && !op.popped.empty()) {
          out += ":";
          for (size_t j = 0; j < op.popped.size(); ++j) out += (j ? "." : "") + std::to_string(op.popped[j]);
        }
        out += (i + 1 < threads[t].size() ? "," : "");
      }
      out += (t + 1 < threads.size() ? "|" : "");
    }
    std::vector<Op> drains(left.size());
    for (size_t i = 0; i < left.size(); ++i) pops.push_back(Ev{left[i], &drains[i], 0, inf - 2 * left.size() + 2 * i, inf - 2 * left.size() + 2 * i + 1});
    bool conserve = other_left == junk, nodup = true, fifo = true, tryjust = true, timed = true, avail = true, counts = true;
    {
      std::map<uint64_t, int> pc, oc;
      for (auto& e : pushes) pc[e.v]++;
      for (auto& e : pops) oc[e.v]++;
      for (auto& kv : oc) { if (kv.second > 1) nodup = false; if (!pc.count(kv.first)) conserve = false; }
      for (auto& kv : pc) { if (kv.second > 1) counts = false; if (!oc.count(kv.first)) conserve = false; }
    }
    for (auto op : all) {   // reported counts agree with the callbacks that ran
      if (strchr("PNpnXHh", op->k) && op->cnt != op->pushed_cnt) counts = false;
      if (strchr("OMomUYg", op->k) && op->cnt != op->popped.size() - 0 && op->k != 'Y') counts = false;
      if (op->k == 'Y' && op->popped.size() != op->n) counts = false;
      if (strchr("PONMXYH", op->k) && op->cnt != op->n) counts = false;
      if (op->cnt > op->n && !strchr("DA", op->k)) counts = false;
    }
    {
      std::map<uint64_t, const Ev*> popof;
      for (auto& e : pops) popof[e.v] = &e;
      auto before = [](const Ev& x, const Ev& y) { return (x.op == y.op) ? (x.pos >= 0 && y.pos >= 0 && x.pos < y.pos) : x.e < y.b; };
      for (auto& a : pushes) for (auto& b2 : pushes) {
        if (&a == &b2 || !before(a, b2)) continue;
        auto pa = popof.find(a.v), pb = popof.find(b2.v);
        if (pa == popof.end() || pb == popof.end()) continue;
        if (before(*pb->second, *pa->second)) fifo = false;
      }
    }
    for (auto op : all) {
      bool is_try = strchr("pnomgh", op->k) != nullptr;
      if (is_try && op->cnt < op->n) {
        bool overlapped = false; long long size_at = 0;
        for (auto x : all) {
          if (x == op || x->k == 'A') continue;
          if (x->e < op->b) { size_at += (long long)x->pushed_cnt + (long long)x->injected.size() - (long long)x->popped.size(); continue; }
          if (x->b > op->e) continue;
          overlapped = true;
        }
        if (!overlapped) {
          if (strchr("pnh", op->k)) { if (size_at + (long long)op->cnt < (long long)cap) tryjust = false; }
          else { if (size_at - (long long)op->cnt > 0) tryjust = false; }
        }
      }
      if (op->k == 'U') {
        uint64_t tmo = (uint64_t)op->arg * 10000000ull;
        // scheduling delay: virtual time that passes while the caller is runnable but not running is bounded by the time
        // the program lets pass explicitly (A ops) plus 50 ns per scheduling point of the run (< 2 ms)
        uint64_t slack = 2000000ull;
        for (auto x : all) if (x->k == 'A') slack += (uint64_t)x->arg * 1000000ull;
        // a slow callback lets 0.1 ms pass at each of its scheduling points: the popper's own steps (a few dozen per
        // call) are interleaved with those
        for (auto x : all) if (x->k == 'H') slack += 40000000ull;
        if (op->t1 - op->t0 > tmo + slack) timed = false;
        long long size_at = 0;
        for (auto x : all) if (x != op && x->k != 'A' && x->e < op->b) size_at += (long long)x->pushed_cnt + (long long)x->injected.size() - (long long)x->popped.size();
        // "available" in the ticket sense: a push that overlaps the call may hold an earlier ticket unpublished, in which
        // case completed later pushes are not yet poppable (the property allows a short count when an op overlaps)
        bool push_overlaps = false;
        for (auto x : all)
          if (x != op && strchr("PpNnXYHh", x->k) && x->b != 0 && x->b < op->e && (!x->done || x->e > op->b)) push_overlaps = true;
        long long want = std::min<long long>((long long)op->n, size_at);
        if (!push_overlaps && (long long)op->cnt < want) avail = false;
      }
    }
    // ready prefix (single popping thread, no compensating variants): the pops of that thread in program order, then the
    // final drain, list the values in index order.  A timed pop that starts at position p must deliver at least the
    // leading values of that order whose push had returned before the call began (min with num): they were published.
    bool prefix = true;
    {
      int tc = -1; bool single = true;
      for (size_t t = 0; t < threads.size(); ++t)
        for (auto& o : threads[t]) {
          if (strchr("XY", o.k)) single = false;
          if (strchr("OoMmUDg", o.k)) { if (tc >= 0 && tc != (int)t) single = false; tc = (int)t; }
        }
      if (single && tc >= 0) {
        std::map<uint64_t, const Op*> pusher;
        for (auto& e : pushes) pusher[e.v] = e.op;
        std::vector<uint64_t> seq;
        for (auto& o : threads[tc]) for (auto v : o.popped) seq.push_back(v);
        for (auto v : left) seq.push_back(v);
        size_t p = 0;
        for (auto& o : threads[tc]) {
          if (o.k == 'U' && o.done) {
            size_t m = 0;
            while (m < o.n && p + m < seq.size()) {
              auto it = pusher.find(seq[p + m]);
              if (it == pusher.end() || !it->second->done || !(it->second->e < o.b)) break;
              m++;
            }
            if (o.cnt < m) prefix = false;
          }
          p += o.popped.size();
        }
      }
    }
    printf("%s ok steps=%llu pre=%llu | %s | excl=%d state=%d publish=%d conserve=%d nodup=%d counts=%d fifo=%d tryjust=%d timed=%d avail=%d prefix=%d left=%zu\n",
           id, (unsigned long long)r.steps, (unsigned long long)r.preemptions, out.c_str(), m_excl, m_state, m_publish,
           conserve, nodup, counts, fifo, tryjust, timed, avail, prefix, left.size());
    fflush(stdout);
    delete qa;
    delete qb;
  }
  return 0;
}
