// C05 driver: real babylon::anyflow Graph / GraphVertex / GraphDependency / GraphData / ClosureContext under the
// deterministic scheduler.  The anyflow .cpp files are compiled into this translation unit *after* the shim so that
// their atomics (dependency / vertex / data / closure counters) are scheduling points.  No edit of /repo.
//
// stdin, one case per line:
//   <id> <seed> <strategy> <exec> <cycles> <graph> <presets> <injects> <targets>
//     exec     I (inplace executor) | P<w> (harness GraphExecutor: run tasks queued, w worker threads pick them)
//     cycles   number of run / reset cycles on the same graph instance
//     graph    vertices ';'-separated, each <flags>:<deps>:<emits>
//                flags  letters t (declare_trivial) f (may fail) b (boolean outputs) or '-'
//                deps   ','-separated  <tgt> | <tgt>?<cond> (on) | <tgt>!<cond> (unless), suffix '*' = essential; '-' none
//                emits  ','-separated data ids
//     presets  d=v,d=E,...   emitted before run()            ('-' none)
//     injects  threads '|'-separated, each d=v@k,...  emitted by an extra thread after k yield points ('-' none)
//     targets  d,d,...
// stdout: <id> ok steps=.. | <cycle>#<cycle>.. | <monitor verdicts>
//   cycle = code=<c> vals=<per data U|E|int> ran=<v>:<inputs>;... act=<activated vertices with deps> inj=<valid flags>
#include "shim/prelude.h"

#include "babylon/anyflow/builder.h"

#include "babylon/anyflow/builder.cpp"
#include "babylon/anyflow/closure.cpp"
#include "babylon/anyflow/data.cpp"
// GraphDependency::ready decrements _waiting_num and only afterwards stores _established (a plain store inside
// check_established()); there is no atomic operation in between, so the scheduler could never pre-empt inside that
// window.  Every call of check_established() in dependency.cpp is routed through a hook that is a scheduling point.
namespace babylon { namespace anyflow {
static inline bool c05_check_established_hook(GraphDependency* d) noexcept {
  ::verif::point(::verif::K_USER, 0, d, "check_established", 0);
  return d->check_established();
}
} }
#define check_established() c05_check_established_hook(this)
#include "babylon/anyflow/dependency.cpp"
#undef check_established
#include "babylon/anyflow/executor.cpp"
#include "babylon/anyflow/graph.cpp"
#include "babylon/anyflow/vertex.cpp"

#include <signal.h>
#include <cstdio>
#include <cstring>
#include <deque>
#include <set>
#include <sstream>

using namespace babylon::anyflow;

static const int64_t M = 1009;

struct DepD { int tgt = 0; int cnd = -1; bool ev = false; bool ess = false; };
struct VtxD { bool trivial = false, canfail = false, boolean = false; char cmode = 's'; std::vector<DepD> deps; std::vector<int> emits; };
struct Inj { int d; bool empty; int64_t v; int delay; };

struct Ctx {
  std::vector<VtxD> vs;
  std::vector<GraphData*> data;
  std::vector<int> runs, acts, pubs;
  std::vector<std::string> inputs;
  std::vector<int64_t> pubval;
  std::vector<bool> pubempty;
  int in_process = 0;
  bool mon_deps = true, mon_flag = true, mon_input = true, mon_sealed = true;
  // deferred-commit threads spawned by processors, joined by the main thread.  spawn_started is bumped before the
  // std::thread is constructed (pthread_create is a scheduling point: the new thread may finish, and wait() return,
  // before the constructor comes back)
  std::vector<std::unique_ptr<std::thread>> threads;
  size_t spawn_started = 0, joined = 0;
};
static Ctx* C = nullptr;

struct VOpt { int vid; };

// ---- 'x' mode (run() races an external release still in flight): bookkeeping for the one known finding ----
static char g_id[80];
static volatile int g_xpend = 0;          // the closure finished with an error while an external emit() had not returned
static volatile int g_xlate = 0;          // a vertex was invoked after closure.wait() had returned
static volatile bool g_wait_returned = false;
static size_t g_inj_started = 0, g_inj_done = 0;
static volatile int g_code = 99, g_tr = 1;   // closure code once get() returned; 0 if a target was not ready on success
static void crash_handler(int sig) {      // x-mode cases run one per process: report the crash as this case's line
  char buf[512];
  int n = snprintf(buf, sizeof buf, "%s ok steps=0 pre=0 | code=%d vals= ran= act= inj= xp=%d xl=%d crash=%d tr=%d | once=1 deps=1 flag=1 "
                   "input=1 dataonce=1 wait=1 fin=1 tgtready=1 sealed=1 observed=1\n", g_id, g_code == 0 ? 0 : (g_code == 99 ? 99 : 1), g_xpend, g_xlate, sig, g_tr);
  if (write(1, buf, (size_t)n) < 0) {}
  _exit(0);
}
struct HCtx : public ClosureContextImplement<::babylon::SchedInterface> {
  using Base = ClosureContextImplement<::babylon::SchedInterface>;
  explicit HCtx(GraphExecutor& e) noexcept : Base(e) {}
  void notify_finish() noexcept override {
    if (error_code() != 0 && g_inj_started > g_inj_done) g_xpend = 1;
    Base::notify_finish();
  }
};

static std::vector<std::string> split(const std::string& s, char c) {
  std::vector<std::string> out; std::stringstream ss(s); std::string x;
  while (std::getline(ss, x, c)) out.push_back(x);
  return out;
}

// record a write through a valid committer; a valid, unreleased committer means the data is not sealed yet
static void note_write(GraphData* gd, int d, bool empty, int64_t v) {
  if (gd->ready()) C->mon_sealed = false;
  C->pubs[d]++;
  C->pubempty[d] = empty;
  C->pubval[d] = v;
}

// publish data d through a Committer<int64_t>, exercising the wrapper's special members:
//   's' construct, write, destroy            'e' construct, write, release() explicitly, destroy
//   'm' move-construct once, write through the new committer, drop the moved-from one
//   'M' move-construct twice, move-assign back into the first (moved-from) committer, write, destroy
static void publish(GraphData* gd, int d, bool empty, int64_t v, bool* valid_out, char mode = 's') {
  auto c = gd->emit<int64_t>();
  bool valid = c.valid();
  if (valid_out) *valid_out = valid;
  if (mode == 'm') {
    Committer<int64_t> c1(std::move(c));
    if (c1.valid()) { note_write(gd, d, empty, v); if (!empty) *c1 = v; }
    return;
  }
  if (mode == 'M') {
    Committer<int64_t> c1(std::move(c));
    Committer<int64_t> c2(std::move(c1));
    c = std::move(c2);
    if (c.valid()) { note_write(gd, d, empty, v); if (!empty) *c = v; }
    return;
  }
  if (valid) {
    note_write(gd, d, empty, v);
    if (!empty) *c = v;
    if (mode == 'e') c.release();
  }
  // release at scope end: seals the data and notifies the successors (may run vertices inline)
}

struct Proc : public GraphProcessor {
  int setup() noexcept override {
    int v = option<VOpt>()->vid;
    VtxD& vd = C->vs[v];
    for (size_t i = 0; i < vd.deps.size(); ++i) vertex().anonymous_dependency(i)->declare_essential(vd.deps[i].ess);
    if (vd.trivial) vertex().declare_trivial();
    return 0;
  }
  int on_activate() noexcept override {
    C->acts[option<VOpt>()->vid]++;
    return 0;
  }
  int process() noexcept override {
    int v = option<VOpt>()->vid;
    VtxD& vd = C->vs[v];
    C->runs[v]++;
    C->in_process++;
    if (g_wait_returned) g_xlate = 1;
    int64_t acc = (v * 7 + 1) % M;
    std::string in;
    for (size_t i = 0; i < vd.deps.size(); ++i) {
      GraphDependency* dep = vertex().anonymous_dependency(i);
      const DepD& dd = vd.deps[i];
      GraphData* td = C->data[dd.tgt];
      bool ok = true, est = true;
      if (dd.cnd >= 0) {
        GraphData* cd = C->data[dd.cnd];
        if (!cd->ready()) ok = false;
        else { const int64_t* cv = cd->value<int64_t>(); est = ((cv != nullptr && *cv != 0) == dd.ev); }
      }
      if (ok && est && !td->ready()) ok = false;
      if (!ok) C->mon_deps = false;
      else if (dep->ready() != est) C->mon_flag = false;
      const int64_t* p = dep->value<int64_t>();
      if (ok) {
        const int64_t* tv = est ? td->value<int64_t>() : nullptr;
        if ((p == nullptr) != (tv == nullptr) || (p && *p != *tv)) C->mon_input = false;
      }
      acc = (acc * 31 + (p ? *p + 1 : 0)) % M;
      in += (i ? "," : "") + (p ? std::to_string(*p) : std::string("N"));
    }
    C->inputs[v] = in;
    if (vd.canfail && acc % 3 == 0) { C->in_process--; return -1; }
    std::vector<std::pair<size_t, int64_t>> outs;      // (emit index, value); the others are left to flush_emits (empty)
    for (size_t j = 0; j < vd.emits.size(); ++j) {
      int64_t y = (acc + 17 * (int64_t)j) % M;
      if (y % 5 == 0) continue;
      outs.push_back({j, vd.boolean ? y % 2 : y});
    }
    if (vd.cmode == 'a') { pending = outs; return 1000; }   // deferred commit, see process(closure)
    if (vd.cmode == 'w' && outs.size() >= 2) {
      // move-assign over a VALID committer of another data: the overwritten content (first data) is committed by the
      // assignment, the second one by the destructor
      GraphData* ga = vertex().anonymous_emit(outs[0].first); int da = vd.emits[outs[0].first];
      GraphData* gb = vertex().anonymous_emit(outs[1].first); int db = vd.emits[outs[1].first];
      {
        auto ca = ga->emit<int64_t>();
        auto cb = gb->emit<int64_t>();
        if (ca.valid()) { note_write(ga, da, false, outs[0].second); *ca = outs[0].second; }
        ca = std::move(cb);
        if (ca.valid()) { note_write(gb, db, false, outs[1].second); *ca = outs[1].second; }
      }
      for (size_t k = 2; k < outs.size(); ++k) publish(vertex().anonymous_emit(outs[k].first), vd.emits[outs[k].first], false, outs[k].second, nullptr);
    } else {
      for (auto& o : outs) publish(vertex().anonymous_emit(o.first), vd.emits[o.first], false, o.second, nullptr, vd.cmode == 'w' ? 'm' : vd.cmode);
    }
    C->in_process--;
    return 0;
  }
  std::vector<std::pair<size_t, int64_t>> pending;
  // deferred commit ('a'): the committers are created here, moved into another thread together with the vertex closure,
  // filled and released there; the closure is done afterwards
  void process(GraphVertexClosure&& closure) noexcept override {
    int rc = process();
    if (rc != 1000) { closure.done(rc); return; }
    int v = option<VOpt>()->vid;
    VtxD& vd = C->vs[v];
    std::vector<Committer<int64_t>> cs;
    std::vector<std::pair<int, int64_t>> what;
    std::vector<GraphData*> gds;
    for (auto& o : pending) {
      cs.emplace_back(vertex().anonymous_emit(o.first)->emit<int64_t>());
      gds.push_back(vertex().anonymous_emit(o.first));
      what.push_back({vd.emits[o.first], o.second});
    }
    C->spawn_started++;
    std::unique_ptr<std::thread> thr(new std::thread([cs = std::move(cs), what, gds, cl = std::move(closure)]() mutable {
      verif::advance_time(0);
      for (size_t k = 0; k < cs.size(); ++k) {
        Committer<int64_t> c(std::move(cs[k]));
        if (c.valid()) { note_write(gds[k], what[k].first, false, what[k].second); *c = what[k].second; }
        verif::advance_time(0);
      }
      cs.clear();
      C->in_process--;
      cl.done(0);
    }));
    C->threads.push_back(std::move(thr));
  }
};

struct HExec : public GraphExecutor {
  struct Task { GraphVertex* v; GraphVertexClosure c; };
  std::deque<Task> q;
  bool inplace = true;
  bool xmode = false;
  uint64_t rng = 1;
  int nrun = 0;
  Closure create_closure() noexcept override {
    if (xmode) return Closure(new HCtx(*this));
    return Closure::create<::babylon::SchedInterface>(*this);
  }
  int32_t run(GraphVertex* v, GraphVertexClosure&& c) noexcept override {
    nrun++;
    if (g_wait_returned) g_xlate = 1;
    if (inplace) { v->run(std::move(c)); return 0; }
    q.push_back(Task {v, std::move(c)});
    return 0;
  }
  int32_t run(ClosureContext* cl, Closure::Callback* cb) noexcept override { cl->run(cb); return 0; }
  bool take(Task& out) {
    if (q.empty()) return false;
    rng = rng * 6364136223846793005ull + 1442695040888963407ull;
    size_t k = (size_t)((rng >> 33) % q.size());
    out = std::move(q[k]);
    q.erase(q.begin() + (long)k);
    return true;
  }
};

int main() {
  static char line[1 << 16];
  while (fgets(line, sizeof line, stdin)) {
    std::vector<std::string> w;
    { std::stringstream ss(line); std::string x; while (ss >> x) w.push_back(x); }
    if (w.size() != 9) continue;
    const std::string id = w[0];
    unsigned long long seed = strtoull(w[1].c_str(), nullptr, 10);
    int strategy = atoi(w[2].c_str());
    bool unit = w[3][0] == 'U';   // unit mode: thread 0 calls GraphVertex::activate of vertex 0 directly, the injectors
                                  // release its condition / target concurrently (needs -fno-access-control)
    bool inplace = w[3][0] == 'I' || unit;
    int workers = inplace ? 0 : atoi(w[3].c_str() + 1);
    int cycles = atoi(w[4].c_str());
    // 'y': REQUESTED TARGETS are emitted by other threads concurrently with run() (run() does not wait for anything)
    bool ymode = w[3].find('y') != std::string::npos;
    bool inflight = w[3].find('x') != std::string::npos || ymode;
    Ctx ctx; C = &ctx;
    int nd = 0;
    for (auto& vs : split(w[5], ';')) {
      auto p = split(vs, ':');
      VtxD vd;
      vd.trivial = p[0].find('t') != std::string::npos;
      vd.canfail = p[0].find('f') != std::string::npos;
      vd.boolean = p[0].find('b') != std::string::npos;
      for (char cm : std::string("mMwae")) if (p[0].find(cm) != std::string::npos) vd.cmode = cm;
      if (p.size() > 1 && p[1] != "-")
        for (auto& ds : split(p[1], ',')) {
          DepD d; std::string s = ds;
          if (!s.empty() && s.back() == '*') { d.ess = true; s.pop_back(); }
          size_t k = s.find_first_of("?!");
          if (k != std::string::npos) { d.ev = s[k] == '?'; d.cnd = atoi(s.c_str() + k + 1); s = s.substr(0, k); }
          d.tgt = atoi(s.c_str());
          nd = std::max(nd, std::max(d.tgt, d.cnd) + 1);
          vd.deps.push_back(d);
        }
      if (p.size() > 2 && p[2] != "-")
        for (auto& es : split(p[2], ',')) { vd.emits.push_back(atoi(es.c_str())); nd = std::max(nd, vd.emits.back() + 1); }
      ctx.vs.push_back(vd);
    }
    auto parse_inj = [&](const std::string& s, std::vector<Inj>& out) {
      if (s == "-") return;
      for (auto& e : split(s, ',')) {
        Inj in {0, false, 0, 0};
        size_t at = e.find('@');
        std::string body = e.substr(0, at);
        if (at != std::string::npos) in.delay = atoi(e.c_str() + at + 1);
        size_t eq = body.find('=');
        in.d = atoi(body.c_str());
        if (body[eq + 1] == 'E') in.empty = true; else in.v = atoll(body.c_str() + eq + 1);
        nd = std::max(nd, in.d + 1);
        out.push_back(in);
      }
    };
    // presets and targets may differ per cycle: variants separated by '#', cycle k uses variant min(k, last)
    std::vector<std::vector<Inj>> presetsv;
    for (auto& pv : split(w[6], '#')) { presetsv.emplace_back(); parse_inj(pv, presetsv.back()); }
    if (presetsv.empty()) presetsv.emplace_back();
    std::vector<std::vector<Inj>> injectors;
    if (w[7] != "-") for (auto& th : split(w[7], '|')) { injectors.emplace_back(); parse_inj(th, injectors.back()); }
    std::vector<std::vector<int>> targetsv;
    bool kmode = w[3][0] == 'K';   // committer program on the data of the graph (no run): see below
    if (!kmode) for (auto& tv : split(w[8], '#')) {
      targetsv.emplace_back();
      for (auto& t : split(tv, ',')) { targetsv.back().push_back(atoi(t.c_str())); nd = std::max(nd, targetsv.back().back() + 1); }
    }
    if (targetsv.empty()) targetsv.emplace_back();

    // build the graph; vertices are added in a seed-dependent order (the engine must not depend on it)
    HExec exec; exec.inplace = inplace; exec.rng = seed | 1; exec.xmode = inflight;
    snprintf(g_id, sizeof g_id, "%s", id.c_str());
    if (inflight) { signal(SIGSEGV, crash_handler); signal(SIGABRT, crash_handler); signal(SIGBUS, crash_handler); }
    GraphBuilder builder;
    builder.set_executor(exec);
    size_t nv = ctx.vs.size();
    std::vector<size_t> order(nv);
    for (size_t i = 0; i < nv; ++i) order[i] = i;
    { uint64_t r = seed * 2654435761ull + 12345; for (size_t i = nv; i > 1; --i) { r = r * 6364136223846793005ull + 1442695040888963407ull; std::swap(order[i - 1], order[(r >> 33) % i]); } }
    for (size_t oi = 0; oi < nv; ++oi) {
      int v = (int)order[oi];
      auto& vb = builder.add_vertex([] { return std::unique_ptr<GraphProcessor>(new Proc); });
      vb.name("v" + std::to_string(v));
      vb.option(VOpt {v});
      for (auto& d : ctx.vs[v].deps) {
        auto& db = vb.anonymous_depend().to("d" + std::to_string(d.tgt));
        if (d.cnd >= 0) { if (d.ev) db.on("d" + std::to_string(d.cnd)); else db.unless("d" + std::to_string(d.cnd)); }
      }
      for (int e : ctx.vs[v].emits) vb.anonymous_emit().to("d" + std::to_string(e));
    }
    ctx.runs.assign(nv, 0); ctx.acts.assign(nv, 0); ctx.inputs.assign(nv, "");
    ctx.pubs.assign(nd, 0); ctx.pubval.assign(nd, 0); ctx.pubempty.assign(nd, false);
    if (builder.finish() != 0) { printf("%s buildfail\n", id.c_str()); fflush(stdout); continue; }
    std::unique_ptr<Graph> graph = builder.build();
    if (!graph) { printf("%s buildfail\n", id.c_str()); fflush(stdout); continue; }
    ctx.data.assign(nd, nullptr);
    bool missing = false;
    {
      std::set<int> used;   // data no vertex refers to do not exist in the graph
      for (auto& vd : ctx.vs) { for (auto& d : vd.deps) { used.insert(d.tgt); if (d.cnd >= 0) used.insert(d.cnd); } for (int e : vd.emits) used.insert(e); }
      for (int d = 0; d < nd; ++d) if (used.count(d)) { ctx.data[d] = graph->find_data("d" + std::to_string(d)); if (!ctx.data[d]) missing = true; }
    }
    for (auto& tv : targetsv) for (int t : tv) if (!ctx.data[t]) missing = true;
    if (missing) { printf("%s buildfail-unknown-target\n", id.c_str()); fflush(stdout); continue; }

    if (kmode) {
      // program: ops ','-separated: N<d> new committer on data d | M<c> move-construct from c | A<dst>:<src> move-assign |
      // W<c>=<v> write | L<c> clear | R<c> release | D<c> destroy | C<c> cancel.  Committers are numbered in creation order.
      // Output per data: <index of the op that published it | ->/<content at publication>/<final content>
      std::vector<std::unique_ptr<Committer<int64_t>>> cs;
      std::vector<int> pubat(nd, -1); std::vector<std::string> pv(nd, "-");
      bool pubmove = false, late = false;
      auto content = [&](int d) { GraphData* g = ctx.data[d]; if (!g || g->empty()) return std::string("E"); const int64_t* p = g->value<int64_t>(); return p ? std::to_string(*p) : std::string("?"); };
      auto ops = split(w[8], ',');
      for (size_t k = 0; k < ops.size(); ++k) {
        const std::string& o = ops[k];
        int a = atoi(o.c_str() + 1);
        auto live = [&](int c) { return c >= 0 && c < (int)cs.size() && cs[c]; };
        switch (o[0]) {
          case 'N': if (ctx.data[a]) cs.emplace_back(new Committer<int64_t>(ctx.data[a]->emit<int64_t>())); else cs.emplace_back(nullptr); break;
          case 'M': if (live(a)) cs.emplace_back(new Committer<int64_t>(std::move(*cs[a]))); else cs.emplace_back(nullptr); break;
          case 'A': { int b = atoi(o.c_str() + o.find(':') + 1); if (live(a) && live(b) && a != b) *cs[a] = std::move(*cs[b]); } break;
          case 'W': { int64_t v = atoll(o.c_str() + o.find('=') + 1); if (live(a) && cs[a]->valid()) { if (cs[a]->_data && cs[a]->_data->ready()) late = true; **cs[a] = v; } } break;
          case 'L': if (live(a)) { if (cs[a]->valid() && cs[a]->_data && cs[a]->_data->ready()) late = true; cs[a]->clear(); } break;
          case 'R': if (live(a)) cs[a]->release(); break;
          case 'D': if (live(a)) cs[a].reset(); break;
          case 'C': if (live(a)) cs[a]->cancel(); break;
        }
        for (int d = 0; d < nd; ++d)
          if (ctx.data[d] && pubat[d] < 0 && ctx.data[d]->ready()) { pubat[d] = (int)k; pv[d] = content(d); if (o[0] == 'M') pubmove = true; }
      }
      cs.clear();
      std::string out;
      for (int d = 0; d < nd; ++d) {
        if (!ctx.data[d] || !ctx.vs[0].deps.size()) continue;
        bool isdep = false; for (auto& dd : ctx.vs[0].deps) if (dd.tgt == d) isdep = true;
        if (!isdep) continue;
        out += (out.empty() ? "" : " ") + std::string("d") + std::to_string(d) + ":" + (pubat[d] < 0 ? std::string("-") : std::to_string(pubat[d])) + "/" + pv[d] + "/" +
               (ctx.data[d]->ready() ? content(d) : std::string("-"));
      }
      printf("%s ok steps=0 pre=0 | %s | pubmove=%d late=%d\n", id.c_str(), out.c_str(), !pubmove, !late);
      fflush(stdout);
      graph.reset();
      continue;
    }
    std::string out;
    bool once = true, dataonce = true, wait_ok = true, fin_ok = true, tgt_ready = true, observed = true;
    unsigned long long steps = 0, pre = 0;
    for (int cyc = 0; cyc < cycles; ++cyc) {
      if (cyc > 0) graph->reset();
      ctx.runs.assign(nv, 0); ctx.acts.assign(nv, 0); ctx.inputs.assign(nv, "");
      ctx.pubs.assign(nd, 0); ctx.in_process = 0;
      exec.q.clear();
      const std::vector<Inj>& presets = presetsv[std::min((size_t)cyc, presetsv.size() - 1)];
      const std::vector<int>& targets = targetsv[std::min((size_t)cyc, targetsv.size() - 1)];
      for (auto& p : presets) if (ctx.data[p.d]) publish(ctx.data[p.d], p.d, p.empty, p.v, nullptr);
      int code = 12345; bool stop = false; bool finished_after_get = false;
      std::vector<int> injvalid; size_t inj_done = 0;
      g_xpend = 0; g_xlate = 0; g_wait_returned = false; g_inj_started = 0; g_inj_done = 0; g_code = 99; g_tr = 1;
      for (auto& th : injectors) for (size_t k = 0; k < th.size(); ++k) injvalid.push_back(-1);
      std::vector<std::function<void()>> bodies;
      Closure ucl;
      std::string uout;
      if (unit) {
        ucl = exec.create_closure();
        exec.nrun = 0;
        bodies.push_back([&] {
          GraphVertex* vx = nullptr;
          for (auto& gv : graph->vertexes()) if (gv.option<VOpt>()->vid == 0) vx = &gv;
          ::absl::InlinedVector<GraphData*, 128> ad;
          ::absl::InlinedVector<GraphVertex*, 128> rv;
          vx->activate(ad, rv, ucl.context());
          while (!rv.empty()) { auto* v = rv.back(); rv.pop_back(); v->invoke(rv); }
        });
      } else
      bodies.push_back([&] {
        std::vector<GraphData*> td;
        for (int t : targets) td.push_back(ctx.data[t]);
        // externally injected data: emitted by other threads; run() starts once their emit calls have returned
        // (mode suffix 'x': run() may start as soon as the data is sealed, i.e. while the injector is still inside
        // release() - the closure accounting does not cover that and may finish early with -1; probe only, not generated)
        if (ymode) {}
        else if (inflight) { for (auto& th : injectors) for (auto& in : th) if (ctx.data[in.d]) while (!ctx.data[in.d]->ready()) usleep(1); }
        else while (inj_done < injectors.size()) usleep(1);
        Closure cl = graph->run(td.data(), td.size());
        code = cl.get();
        finished_after_get = cl.finished();
        if (code == 0) for (auto* g : td) if (!g->ready()) tgt_ready = false;
        g_code = code; g_tr = tgt_ready ? 1 : 0;
        cl.wait();
        g_wait_returned = true;
        if (ctx.in_process != 0 || !exec.q.empty()) wait_ok = false;
        while (ctx.joined < ctx.spawn_started) {
          if (ctx.joined < ctx.threads.size()) { std::thread* t = ctx.threads[ctx.joined].get(); ctx.joined++; t->join(); }
          else usleep(1);
        }
        ctx.threads.clear(); ctx.spawn_started = 0; ctx.joined = 0;
        stop = true;
      });
      for (int k = 0; k < workers; ++k)
        bodies.push_back([&] {
          while (true) {
            HExec::Task t;
            if (exec.take(t)) { t.v->run(std::move(t.c)); }
            else if (stop) break;
            else usleep(1);
          }
        });
      size_t base = 0;
      for (auto& th : injectors) {
        size_t b0 = base;
        bodies.push_back([&, b0] {
          for (size_t k = 0; k < th.size(); ++k) {
            for (int y = 0; y < th[k].delay; ++y) verif::advance_time(0);
            bool valid = false;
            g_inj_started++;
            if (ctx.data[th[k].d]) publish(ctx.data[th[k].d], th[k].d, th[k].empty, th[k].v, &valid);
            g_inj_done++;
            injvalid[b0 + k] = valid ? 1 : 0;
          }
          inj_done++;
        });
        base += th.size();
      }
      verif::Options opt; opt.seed = seed + (unsigned long long)cyc * 7919; opt.strategy = strategy; opt.max_steps = 400000;
      verif::Result r = verif::run(bodies, opt);
      steps += r.steps; pre += r.preemptions;
      if (unit) {
        GraphVertex* vx = nullptr;
        for (auto& gv : graph->vertexes()) if (gv.option<VOpt>()->vid == 0) vx = &gv;
        GraphDependency& dep = vx->dependencies()[0];
        char ub[96];
        snprintf(ub, sizeof ub, "unit=%d/%d/%lld", exec.nrun, dep._ready ? 1 : 0, (long long)dep._waiting_num.load(std::memory_order_relaxed));
        out += ub;
        ucl.context()->fire();
        ucl = Closure();
        continue;
      }
      if (!finished_after_get) fin_ok = false;
      char buf[64];
      snprintf(buf, sizeof buf, "%scode=%d vals=", cyc ? "#" : "", code == 0 ? 0 : (code == 12345 ? 12345 : 1));
      out += buf;
      for (int d = 0; d < nd; ++d) {
        GraphData* g = ctx.data[d];
        std::string s;
        if (!g) s = "U";
        else if (!g->ready()) s = "U";
        else if (g->empty()) s = "E";
        else { const int64_t* p = g->value<int64_t>(); s = p ? std::to_string(*p) : "?"; }
        out += (d ? "," : "") + s;
        if (ctx.pubs[d] > 1) dataonce = false;
        if (ctx.pubs[d] == 1) {
          std::string e = ctx.pubempty[d] ? "E" : std::to_string(ctx.pubval[d]);
          if (s != e) dataonce = false;
        }
      }
      // value-observed: what a processor saw through its dependencies equals the final content of those data
      for (size_t v = 0; v < nv; ++v) {
        if (ctx.runs[v] < 1) continue;
        std::string exp; bool known = true;
        for (size_t i = 0; i < ctx.vs[v].deps.size() && known; ++i) {
          const DepD& dd = ctx.vs[v].deps[i];
          bool est = true;
          if (dd.cnd >= 0) {
            GraphData* cd = ctx.data[dd.cnd];
            if (!cd || !cd->ready()) { known = false; break; }
            const int64_t* cv = cd->value<int64_t>(); est = ((cv != nullptr && *cv != 0) == dd.ev);
          }
          GraphData* td = ctx.data[dd.tgt];
          if (est && (!td || !td->ready())) { known = false; break; }
          const int64_t* tv = est ? td->value<int64_t>() : nullptr;
          exp += (i ? "," : "") + (tv ? std::to_string(*tv) : std::string("N"));
        }
        if (known && exp != ctx.inputs[v]) observed = false;
      }
      out += " ran=";
      bool first = true;
      for (size_t v = 0; v < nv; ++v) {
        if (ctx.runs[v] > 1 || ctx.acts[v] > 1) once = false;
        if (ctx.runs[v] >= 1) { out += (first ? "" : ";") + std::to_string(v) + ":" + ctx.inputs[v]; first = false; }
      }
      out += " act=";
      first = true;
      for (size_t v = 0; v < nv; ++v) if (ctx.acts[v] >= 1) { out += (first ? "" : ",") + std::to_string(v); first = false; }
      out += " inj=";
      for (int x : injvalid) out += std::to_string(x);
      if (inflight) out += " xp=" + std::to_string((int)g_xpend) + " xl=" + std::to_string((int)g_xlate);
    }
    printf("%s ok steps=%llu pre=%llu | %s | once=%d deps=%d flag=%d input=%d dataonce=%d wait=%d fin=%d tgtready=%d sealed=%d observed=%d\n", id.c_str(),
           steps, pre, out.c_str(), once, ctx.mon_deps, ctx.mon_flag, ctx.mon_input, dataonce, wait_ok, fin_ok, tgt_ready, ctx.mon_sealed, observed);
    fflush(stdout);
    // x mode (one case per process): after a premature finish the closure / graph may be in a state where their
    // destructors wait forever outside the scheduler; the case's line is out, leave without running them
    if (inflight) _exit(0);
    graph.reset();
  }
  return 0;
}
