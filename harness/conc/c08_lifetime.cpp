// C08 (lifetime half): callbacks and waiters that drop the Promise and every Future while set_value is still
// walking its callback list must still observe a live value ("each callback ... observes the value").
// stdin lines: <case-id> <sched-seed> <strategy> <variant>
//   variant 0: single thread - callbacks E1, E2, REL registered in that order (they run newest first): REL deletes
//              the Promise and drops the last Future; E1/E2 must still see the value.
//   variant 1: setter thread + waiter thread - the waiter's get() returns as soon as READY is published, it then
//              drops its Future and deletes the Promise while the setter is still inside its callback walk.
//   variant 2: like 1 with two waiters and a then() continuation.
// stdout: <case-id> ok steps=.. | early_seen=<n> | alive=1/0 once=1/0
#include "shim/prelude.h"
#include "babylon/future.h"

#include <cstdio>
#include <cstring>

using namespace babylon;

static int g_live = 0;
struct Val {
  uint64_t magic;
  size_t v;
  explicit Val(size_t x) : magic(0xA11CEA11CEull), v(x) { ++g_live; }
  Val(const Val& o) : magic(o.magic), v(o.v) { ++g_live; }
  ~Val() { magic = 0xDEADDEADull; --g_live; }
};

int main() {
  char line[512];
  while (fgets(line, sizeof line, stdin)) {
    char id[64]; unsigned long long seed; int strategy, variant;
    if (sscanf(line, "%63s %llu %d %d", id, &seed, &strategy, &variant) != 4) continue;
    g_live = 0;
    auto* promise = new Promise<Val>();
    auto* f_main = new Future<Val>(promise->get_future());
    int ran[4] = {0, 0, 0, 0};
    bool alive_ok = true;
    auto check = [&](Val& x, int k) { ran[k]++; if (x.magic != 0xA11CEA11CEull || x.v != 42 || g_live < 1) alive_ok = false; };
    std::atomic<int> waiter_done {0};
    std::vector<std::function<void()>> bodies;
    if (variant == 0) {
      bodies.push_back([&] {
        f_main->on_finish([&](Val& x) { check(x, 0); });
        f_main->on_finish([&](Val& x) { check(x, 1); });
        f_main->on_finish([&](Val& x) { check(x, 2); delete f_main; f_main = nullptr; auto* p = promise; promise = nullptr; delete p; });
        promise->set_value(42);
      });
    } else {
      int nw = variant == 1 ? 1 : 2;
      bodies.push_back([&] {
        f_main->on_finish([&](Val& x) { check(x, 0); sched_yield(); sched_yield(); sched_yield(); });
        f_main->on_finish([&](Val& x) { check(x, 1); sched_yield(); sched_yield(); });
        delete f_main; f_main = nullptr;   // the setter keeps no Future: only the waiters' copies remain
        Promise<Val>* p = promise;
        p->set_value(42);
      });
      static std::atomic<int> arrivals; arrivals = 0;
      for (int w = 0; w < nw; ++w) {
        bodies.push_back([&, w, nw] {
          Future<Val> f = promise->get_future();
          if (variant == 2 && w == 1) { auto f2 = f.then([&](Val& x) { check(x, 3); return 0; }); (void)f2; }
          Val& x = f.get();
          check(x, 2);
          f = Future<Val>();
          // the last waiter to leave deletes the Promise (nobody else references the context any more)
          if (arrivals.fetch_add(1) + 1 == nw) { auto* p = promise; promise = nullptr; delete p; }
          waiter_done++;
        });
      }
    }
    verif::Options opt; opt.seed = seed; opt.strategy = strategy; opt.max_steps = 200000;
    verif::Result r = verif::run(bodies, opt);
    bool once = ran[0] == 1 && ran[1] == 1;
    printf("%s ok steps=%llu | ran=%d,%d,%d,%d live_after=%d | alive=%d once=%d\n", id, (unsigned long long)r.steps, ran[0], ran[1],
           ran[2], ran[3], g_live, alive_ok ? 1 : 0, once ? 1 : 0);
    fflush(stdout);
    delete f_main; delete promise;
  }
  return 0;
}
