// C17 driver: real babylon CachedPageAllocator / PageHeap / BatchPageAllocator / CountingPageAllocator / ObjectPool
// under the deterministic scheduler, with a recording upstream allocator and a harness-side ownership map.
// stdin lines:  <case-id> <kind> <sched-seed> <strategy> <p1> <p2> <program>
//   kind C : CachedPageAllocator(capacity p1) over the recording upstream      ops: A<n> allocate n, F<n> free first n held
//   kind H : PageHeap(capacity p1, page size 64)                               ops: A<n>, F<n>
//   kind P : ObjectPool auto-create mode, reserve_and_clear(p1)                ops: O pop, U push(first held), D drop first
//                                                                                   held (Deleter), T try_pop, M move-assign
//   kind S : ObjectPool strict mode, reserve_and_clear(p1)                     ops: N new object, G pop, R push(first held),
//                                                                                   D drop first held (Deleter), T try_pop
//   kind B : Counting(Batch(batch size p1; p1 = 0: set_batch_size never called = default 16)(recording upstream)), p2 threads;
//            program = ONE global op sequence a<t> allocate(), n<t>:<k> allocate(k), f<t> deallocate(first held),
//            m<t>:<k> deallocate(first k held); thread t executes its ops when the baton reaches them
//   kind M : several ObjectPools, reserve_and_clear(p1) each; p2 = one digit per pool, 1 strict / 2 auto-create (e.g. 12)
//            ops: O<j> handle := pool j .pop(), T<j> try_pop, N handle{new object} with a default-constructed Deleter,
//                 H<j> pool j .push(std::move(first handle))   (unique_ptr<T, Deleter> overload),
//                 U<j> pool j .push(unique_ptr<T>{first handle.release()}), D first handle dies, V move the first handle,
//                 X<j> pool j is move-constructed into a fresh pool that replaces it, Y<j> move-assigned into a fresh
//                 configured pool (single-threaded programs only; outstanding handles stay bound to the old object)
//   program (C,H,P,S,M) = threads separated by '|', ops separated by ','
// stdout: <case-id> ok steps=<n> | <outcome, same text as the model driver> | <monitor>=<0/1> ...
#include "shim/prelude.h"
#include "shim/dsched.h"
#include "babylon/concurrent/object_pool.h"
#include "babylon/reusable/page_allocator.h"

#include <cstdio>
#include <cstring>
#include <sstream>

using namespace babylon;

// ------------------------------------------------------------------------------------------- upstream
struct Rec : public PageAllocator {
  std::vector<void*> pages;                 // id -> address (never reused inside a case)
  std::unordered_map<void*, int> ids;
  std::vector<int> live;                    // 1 = obtained and not returned
  std::vector<int> holder;                  // -1 nobody (cached / inside the allocator), t >= 0 held by caller t,
                                            // -2-t handed to deallocate by caller t, call still running
  std::vector<int> returned;                // order of return
  bool bad_free = false, double_free = false, free_held = false;
  size_t page_size() const noexcept override { return 64; }
  using PageAllocator::allocate;
  using PageAllocator::deallocate;
  void allocate(void** out, size_t n) noexcept override {
    for (size_t i = 0; i < n; ++i) {
      void* p = ::operator new(64);
      ids[p] = (int)pages.size();
      pages.push_back(p);
      live.push_back(1);
      holder.push_back(-1);
      out[i] = p;
    }
  }
  void deallocate(void** in, size_t n) noexcept override {
    for (size_t i = 0; i < n; ++i) {
      auto it = ids.find(in[i]);
      if (it == ids.end()) { bad_free = true; continue; }
      int id = it->second;
      if (!live[id]) { double_free = true; continue; }
      if (holder[id] >= 0) free_held = true;
      live[id] = 0;
      holder[id] = -1;
      returned.push_back(id);
    }
  }
  size_t nlive() const { size_t c = 0; for (int x : live) c += x; return c; }
  size_t nheld() const { size_t c = 0; for (size_t i = 0; i < holder.size(); ++i) c += (live[i] && holder[i] >= 0); return c; }
  ~Rec() noexcept override { for (void* p : pages) ::operator delete(p); }
};

static std::string lst(const std::vector<int>& v) {
  std::string s = "[";
  for (size_t i = 0; i < v.size(); ++i) s += (i ? ";" : "") + std::to_string(v[i]);
  return s + "]";
}

struct Op { char k; long a; long b; };
static std::vector<std::vector<Op>> parse_prog(const std::string& prog) {
  std::vector<std::vector<Op>> threads;
  std::stringstream ss(prog); std::string th;
  while (std::getline(ss, th, '|')) {
    std::vector<Op> ops; std::stringstream s2(th); std::string o;
    while (std::getline(s2, o, ',')) if (!o.empty()) {
      Op op{o[0], 0, 0};
      if (o.size() > 1) { op.a = atol(o.c_str() + 1); auto c = o.find(':'); if (c != std::string::npos) op.b = atol(o.c_str() + c + 1); }
      ops.push_back(op);
    }
    threads.push_back(ops);
  }
  return threads;
}

static verif::Result run_threads(std::vector<std::function<void()>>& bodies, unsigned long long seed, int strategy) {
  verif::Options opt; opt.seed = seed; opt.strategy = strategy; opt.max_steps = 120000;
  opt.preempt_per_mille = 100 + (int)(seed % 7) * 120;
  return verif::run(bodies, opt);
}

// ------------------------------------------------------------------------------------------- C / H
template <typename A>
static void run_pages(const char* id, A* alloc, Rec* up, bool heap, unsigned long long seed, int strategy,
                      const std::string& prog) {
  auto threads = parse_prog(prog);
  size_t nt = threads.size();
  std::vector<std::vector<void*>> held(nt);
  std::vector<std::string> out(nt);
  bool owner = true, known = true;
  std::unordered_map<void*, int> hold_map;     // heap mode: address -> holder
  std::vector<std::function<void()>> bodies;
  for (size_t t = 0; t < nt; ++t) {
    bodies.push_back([&, t] {
      for (auto& op : threads[t]) {
        if (op.k == 'A') {
          std::vector<void*> pg((size_t)op.a, nullptr);
          alloc->allocate(pg.data(), pg.size());
          std::vector<int> got;
          for (void* p : pg) {
            if (heap) {
              if (p == nullptr) known = false;
              if (hold_map.count(p)) owner = false;
              hold_map[p] = (int)t;
              got.push_back(0);
            } else {
              auto it = up->ids.find(p);
              if (it == up->ids.end()) { known = false; got.push_back(-1); continue; }
              int pid = it->second;
              if (!up->live[pid] || up->holder[pid] >= 0) owner = false;   // returned upstream, or someone holds it
              up->holder[pid] = (int)t;
              got.push_back(pid);
            }
            held[t].push_back(p);
          }
          out[t] += (out[t].empty() ? "" : ",") + (heap ? "A" + std::to_string(got.size()) : "A" + lst(got));
        } else if (op.k == 'F') {
          size_t n = std::min((size_t)op.a, held[t].size());
          std::vector<void*> pg(held[t].begin(), held[t].begin() + (long)n);
          held[t].erase(held[t].begin(), held[t].begin() + (long)n);
          for (void* p : pg) {
            if (heap) hold_map.erase(p);
            else up->holder[up->ids[p]] = -2 - (int)t;
          }
          alloc->deallocate(pg.data(), n);
          if (!heap)
            for (void* p : pg) { int pid = up->ids[p]; if (up->holder[pid] == -2 - (int)t) up->holder[pid] = -1; }
          out[t] += (out[t].empty() ? "" : ",") + std::string("F");
        }
      }
    });
  }
  verif::Result r = run_threads(bodies, seed, strategy);
  std::string o;
  for (size_t t = 0; t < nt; ++t) o += (t ? "|" : "") + out[t];
  size_t nheld = 0;
  for (auto& h : held) nheld += h.size();
  if (heap) {
    auto* hp = reinterpret_cast<PageHeap*>(alloc);
    bool count_ok = hp->allocate_page_num() == nheld;
    bool cap_ok = hp->free_page_num() <= hp->free_page_capacity();
    printf("%s ok steps=%llu | %s held=%zu | owner=%d known=%d count=%d cachecap=%d\n", id, (unsigned long long)r.steps,
           o.c_str(), nheld, owner, known, count_ok, cap_ok);
    for (auto& h : held) if (!h.empty()) alloc->deallocate(h.data(), h.size());
    delete alloc;
    return;
  }
  auto* ca = reinterpret_cast<CachedPageAllocator*>(alloc);
  size_t cached_n = ca->free_page_num();
  bool conserve = up->nlive() == nheld + cached_n && up->nheld() == nheld;
  bool cap_ok = cached_n <= ca->free_page_capacity();
  std::vector<int> ret_before = up->returned;
  delete alloc;                                         // ~CachedPageAllocator returns the cache upstream
  std::vector<int> cached(up->returned.begin() + (long)ret_before.size(), up->returned.end());
  bool dtor = cached.size() == cached_n && up->nlive() == nheld;
  printf("%s ok steps=%llu | %s cached=%s returned=%s fresh=%zu | owner=%d known=%d dblfree=%d freeheld=%d conserve=%d "
         "dtor=%d cachecap=%d\n", id, (unsigned long long)r.steps, o.c_str(), lst(cached).c_str(), lst(ret_before).c_str(),
         up->pages.size(), owner, known, !(up->double_free || up->bad_free), !up->free_held, conserve, dtor, cap_ok);
}

// ------------------------------------------------------------------------------------------- P / S
struct Obj {
  int id;
  static std::vector<int>* destroyed;
  static std::vector<int>* alive;
  explicit Obj(int i) : id(i) {}
  static std::function<void(int)>* hook;
  static bool twice;
  ~Obj() { if (!(*alive)[(size_t)id]) twice = true; destroyed->push_back(id); (*alive)[(size_t)id] = 0; if (hook) (*hook)(id); }
  static void operator delete(void*) {}          // memory is kept until the end of the case (ids stay readable)
};
std::vector<int>* Obj::destroyed = nullptr;
std::vector<int>* Obj::alive = nullptr;
std::function<void(int)>* Obj::hook = nullptr;
bool Obj::twice = false;

static void run_pool(const char* id, bool strict, size_t pcap, unsigned long long seed, int strategy,
                     const std::string& prog) {
  using Pool = ObjectPool<Obj>;
  using Ptr = std::unique_ptr<Obj, Pool::Deleter>;
  auto threads = parse_prog(prog);
  size_t nt = threads.size();
  std::vector<int> destroyed, alive, holder, recycles, pushes;
  std::vector<void*> mem;
  Obj::destroyed = &destroyed; Obj::alive = &alive;
  int created = 0, pool_created = 0;
  bool owner = true, recycle = true, foreign = true, seqbound = true, moved = true;
  std::vector<ObjectPool<Obj>*> graveyard;
  auto make = [&]() {
    void* m = ::operator new(sizeof(Obj));
    mem.push_back(m);
    alive.push_back(1); holder.push_back(-1); recycles.push_back(0); pushes.push_back(0);
    return new (m) Obj(created++);
  };
  auto* pool = new Pool;
  pool->reserve_and_clear(pcap);
  if (!strict) pool->set_creator([&] { pool_created++; return std::unique_ptr<Obj>(make()); });
  static thread_local int cur_t = -1;
  std::vector<int> in_call(nt, 0), in_call_obj(nt, -1), dropped_in_call(nt, 0);
  std::function<void(int)> hook = [&](int oid) {
    if (cur_t >= 0 && in_call_obj[(size_t)cur_t] == oid) dropped_in_call[(size_t)cur_t] = 1;
  };
  Obj::hook = &hook;
  std::vector<int> unused_(0);     // recycler runs on the pushed object inside the running push of thread t
  pool->set_recycler([&](Obj& o) {
    recycles[(size_t)o.id]++;
    if (cur_t >= 0 && in_call_obj[(size_t)cur_t] == o.id) in_call[(size_t)cur_t]++;
  });
  struct Held { Obj* raw; Ptr wrapped; };
  std::vector<std::list<Held>> held(nt);   // list: no move-assignment of Ptr behind the scenes
  std::vector<std::string> out(nt);
  auto got = [&](size_t t, Ptr&& p, const char* tag) {
    if (!p) { out[t] += (out[t].empty() ? "" : ",") + std::string(tag) + "-"; return; }
    int oid = p->id;
    if (!alive[(size_t)oid] || holder[(size_t)oid] >= 0) owner = false;
    holder[(size_t)oid] = (int)t;
    out[t] += (out[t].empty() ? "" : ",") + std::string(tag) + std::to_string(oid);
    Obj* raw = p.get();
    held[t].push_back(Held{raw, std::move(p)});
  };
  std::vector<std::function<void()>> bodies;
  for (size_t t = 0; t < nt; ++t) {
    bodies.push_back([&, t] {
      cur_t = (int)t;
      for (auto& op : threads[t]) {
        switch (op.k) {
          case 'O': case 'G': got(t, pool->pop(), "O"); break;
          case 'T': got(t, pool->try_pop(), "T"); break;
          case 'N': {
            Obj* o = make();
            holder[(size_t)o->id] = (int)t;
            held[t].push_back(Held{o, Ptr()});
            out[t] += (out[t].empty() ? "" : ",") + std::string("N") + std::to_string(o->id);
          } break;
          case 'U': case 'R': case 'D': {
            if (held[t].empty()) { out[t] += (out[t].empty() ? "" : ",") + std::string("_"); break; }
            Held h = std::move(held[t].front());
            held[t].pop_front();
            int oid = h.raw->id;
            in_call[t] = 0; in_call_obj[t] = oid; dropped_in_call[t] = 0;
            holder[(size_t)oid] = -2 - (int)t;
            pushes[(size_t)oid]++;
            if (op.k == 'D' && h.wrapped) h.wrapped.reset();                 // Deleter -> pool->push
            else if (h.wrapped) pool->push(std::move(h.wrapped));
            else pool->push(std::unique_ptr<Obj>(h.raw));
            if (in_call[t] != 1) recycle = false;                            // exactly one recycler run per returned object
            in_call_obj[t] = -1;
            if (holder[(size_t)oid] == -2 - (int)t) holder[(size_t)oid] = -1;
            bool dropped = dropped_in_call[t] != 0;                          // destroyed by this very push
            out[t] += (out[t].empty() ? "" : ",") + (strict ? std::string("F") : std::string("U") + (dropped ? "1" : "0"));
            if (nt == 1 && !strict && pool->free_object_number() > pcap) seqbound = false;
          } break;
          case 'X': {                                     // single-threaded programs: move the pool into a fresh one
            if (nt != 1) break;
            Pool* old = pool;
            size_t before = old->free_object_number();
            pool = new Pool(std::move(*old));
            graveyard.push_back(old);
            if (pool->free_object_number() != before) moved = false;
            out[t] += (out[t].empty() ? "" : ",") + std::string("X");
          } break;
          case 'M': {                                                        // move-assign a fresh pop over the first held
            if (held[t].empty() || !held[t].front().wrapped) break;
            int old = held[t].front().raw->id;
            in_call[t] = 0; in_call_obj[t] = old;
            pushes[(size_t)old]++;
            holder[(size_t)old] = -2 - (int)t;
            held[t].front().wrapped = pool->pop();
            if (in_call[t] != 1) recycle = false;
            in_call_obj[t] = -1;
            if (holder[(size_t)old] == -2 - (int)t) holder[(size_t)old] = -1;
            Obj* nw = held[t].front().wrapped.get();
            held[t].front().raw = nw;
            if (nw) {
              if (!alive[(size_t)nw->id] || (holder[(size_t)nw->id] >= 0)) owner = false;
              holder[(size_t)nw->id] = (int)t;
            }
            out[t] += (out[t].empty() ? "" : ",") + std::string("M");
          } break;
        }
      }
    });
  }
  verif::Result r = run_threads(bodies, seed, strategy);
  if (strict && pool_created) foreign = false;
  size_t freen = pool->free_object_number();
  size_t qcapacity = pool->_free_objects.capacity();
  std::vector<int> cached;
  for (;;) {                                   // drain in FIFO order
    Ptr p = pool->try_pop();
    if (!p) break;
    int oid = p->id;
    if (!alive[(size_t)oid] || holder[(size_t)oid] >= 0) owner = false;
    if ((size_t)oid >= alive.size()) foreign = false;
    cached.push_back(oid);
    delete p.release();
  }
  size_t nheld = 0;
  for (auto& h : held) nheld += h.size();
  std::vector<int> destroyed_before(destroyed.begin(), destroyed.end() - (long)cached.size());
  bool leak = (size_t)created == destroyed_before.size() + nheld + cached.size() && freen == cached.size();
  bool overflow = cached.size() <= qcapacity;
  for (size_t i = 0; i < recycles.size(); ++i) if (recycles[i] != pushes[i]) recycle = false;
  std::string o;
  for (size_t t = 0; t < nt; ++t) o += (t ? "|" : "") + out[t];
  printf("%s ok steps=%llu | %s cached=%s returned=%s fresh=%d | owner=%d recycle=%d leak=%d overflow=%d nocreate=%d "
         "seqbound=%d moved=%d\n", id, (unsigned long long)r.steps, o.c_str(), lst(cached).c_str(), lst(destroyed_before).c_str(),
         created, owner, recycle, leak, overflow, foreign, seqbound, moved);
  for (auto& hs : held) for (auto& h : hs) { h.wrapped.release(); delete h.raw; }
  delete pool;
  for (auto* g : graveyard) delete g;
  Obj::hook = nullptr;
  for (void* m : mem) ::operator delete(m);
}

// ------------------------------------------------------------------------------------------- M
static void run_multi(const char* id, size_t pcap, unsigned long modes, unsigned long long seed, int strategy,
                      const std::string& prog) {
  using Pool = ObjectPool<Obj>;
  using Ptr = std::unique_ptr<Obj, Pool::Deleter>;
  std::string ms = std::to_string(modes);
  size_t K = ms.size();
  auto threads = parse_prog(prog);
  size_t nt = threads.size();
  std::vector<int> destroyed, alive, holder, target, expected_leak;
  std::vector<void*> mem;
  Obj::destroyed = &destroyed; Obj::alive = &alive; Obj::twice = false;
  int created = 0;
  bool owner = true, route = true, recycle = true, nocreate = true, moved = true, nofresh = true;
  static thread_local int cur_t = -1;
  std::vector<int> in_obj(nt, -1), in_pool(nt, -1), run_ok(nt, 0), run_bad(nt, 0), dropped(nt, 0);
  std::vector<ObjectPool<Obj>*> graveyard;       // moved-from pools, kept alive for the handles still bound to them
  std::function<void(int)> hook = [&](int oid) { if (cur_t >= 0 && in_obj[(size_t)cur_t] == oid) dropped[(size_t)cur_t] = 1; };
  Obj::hook = &hook;
  auto make = [&](int home) {
    void* m = ::operator new(sizeof(Obj));
    mem.push_back(m);
    alive.push_back(1); holder.push_back(-1); target.push_back(home); expected_leak.push_back(0);
    return new (m) Obj(created++);
  };
  std::vector<Pool*> pools;
  std::vector<std::vector<int>> rec(K);
  for (size_t j = 0; j < K; ++j) {
    auto* p = new Pool;
    p->reserve_and_clear(pcap);
    if (ms[j] == '2') p->set_creator([&, j] {
      if (nt == 1)                                 // single thread: the creator must not run while pool j caches objects
        for (size_t o = 0; o < alive.size(); ++o) if (alive[o] && holder[o] == -1 && target[o] == (int)j && !expected_leak[o]) nofresh = false;
      return std::unique_ptr<Obj>(make((int)j));
    });
    p->set_recycler([&, j](Obj& o) {
      rec[j].push_back(o.id);
      if (cur_t >= 0 && in_obj[(size_t)cur_t] == o.id) { if (in_pool[(size_t)cur_t] == (int)j) run_ok[(size_t)cur_t]++; else run_bad[(size_t)cur_t]++; }
    });
    pools.push_back(p);
  }
  struct Held { Obj* raw; Ptr wrapped; int bind; };
  std::vector<std::list<Held>> held(nt);
  std::vector<std::string> out(nt);
  auto tok = [&](size_t t, const std::string& x) { out[t] += (out[t].empty() ? "" : ",") + x; };
  auto got = [&](size_t t, Ptr&& p, const char* tag, int j) {
    if (!p) { tok(t, std::string(tag) + "-"); return; }
    int oid = p->id;
    if (!alive[(size_t)oid] || holder[(size_t)oid] >= 0) owner = false;
    if (target[(size_t)oid] != j) route = false;            // pool j hands out an object that was not put into pool j
    if (ms[(size_t)j] == '1' && target[(size_t)oid] < 0) nocreate = false;
    holder[(size_t)oid] = (int)t;
    tok(t, std::string(tag) + std::to_string(oid));
    Obj* raw = p.get();
    held[t].push_back(Held{raw, std::move(p), j});
  };
  std::vector<std::function<void()>> bodies;
  for (size_t t = 0; t < nt; ++t) {
    bodies.push_back([&, t] {
      cur_t = (int)t;
      for (auto& op : threads[t]) {
        size_t j = (size_t)op.a < K ? (size_t)op.a : 0;
        switch (op.k) {
          case 'O': got(t, pools[j]->pop(), "O", (int)j); break;
          case 'T': got(t, pools[j]->try_pop(), "T", (int)j); break;
          case 'N': {
            Obj* o = make(-1);
            holder[(size_t)o->id] = (int)t;
            held[t].push_back(Held{o, Ptr(o), -1});           // default-constructed Deleter: bound to no pool
            tok(t, "N" + std::to_string(o->id));
          } break;
          case 'H': case 'U': case 'D': {
            if (held[t].empty()) { tok(t, "_"); break; }
            Held h = std::move(held[t].front());
            held[t].pop_front();
            int oid = h.raw->id;
            int dest = op.k == 'D' ? h.bind : (int)j;
            in_obj[t] = oid; in_pool[t] = dest; run_ok[t] = run_bad[t] = dropped[t] = 0;
            target[(size_t)oid] = dest;
            holder[(size_t)oid] = -2 - (int)t;
            if (dest < 0) expected_leak[(size_t)oid] = 1;       // a handle bound to no pool dies: documented loss
            if (op.k == 'H') pools[j]->push(std::move(h.wrapped));
            else if (op.k == 'U') pools[j]->push(std::unique_ptr<Obj>(h.wrapped.release()));
            else h.wrapped.reset();
            if (dest >= 0 && !(run_ok[t] == 1 && run_bad[t] == 0)) recycle = false;
            if (dest < 0 && (run_ok[t] || run_bad[t])) recycle = false;
            in_obj[t] = -1;
            if (holder[(size_t)oid] == -2 - (int)t) holder[(size_t)oid] = -1;
            tok(t, op.k == 'D' ? std::string("D") : std::string("P") + (dropped[t] ? "1" : "0"));
          } break;
          case 'X': case 'Y': {                              // move the whole pool (construction / assignment)
            Pool* old = pools[j];
            size_t before = old->free_object_number();
            Pool* np;
            if (op.k == 'X') np = new Pool(std::move(*old));
            else { np = new Pool; np->reserve_and_clear(pcap); *np = std::move(*old); }
            pools[j] = np;
            graveyard.push_back(old);
            if (np->free_object_number() != before || old->free_object_number() != 0) moved = false;
            tok(t, std::string(1, op.k));
          } break;
          case 'V': {
            if (held[t].empty()) { tok(t, "_"); break; }
            Held h = std::move(held[t].front());
            held[t].pop_front();
            Ptr tmp;
            tmp = std::move(h.wrapped);                          // move assignment (Deleter::operator=)
            h.wrapped = std::move(tmp);
            held[t].push_back(std::move(h));
            tok(t, "V");
          } break;
        }
      }
    });
  }
  verif::Result r = run_threads(bodies, seed, strategy);
  bool count_ok = true;
  std::string cs, rs;
  size_t ndrained = 0;
  for (size_t j = 0; j < K; ++j) {
    size_t freen = pools[j]->free_object_number();
    std::vector<int> cached;
    for (;;) {
      Ptr p = pools[j]->try_pop();
      if (!p) break;
      int oid = p->id;
      if (!alive[(size_t)oid] || holder[(size_t)oid] >= 0) owner = false;
      if (target[(size_t)oid] != (int)j) route = false;
      holder[(size_t)oid] = 1000;                               // drained
      cached.push_back(oid);
      p.release();
    }
    if (freen != cached.size()) count_ok = false;
    ndrained += cached.size();
    cs += (j ? "/" : "") + lst(cached); rs += (j ? "/" : "") + lst(rec[j]);
  }
  for (auto* g : graveyard)                                     // nothing may be left behind in a moved-from pool
    for (;;) { Ptr p = g->try_pop(); if (!p) break; route = false; p.release(); }
  std::vector<int> hl, leaked;
  size_t nheld = 0, nexp = 0;
  for (auto& hs : held) for (auto& h : hs) { hl.push_back(h.raw->id); nheld++; }
  for (size_t o = 0; o < alive.size(); ++o) {
    if (alive[o] && holder[o] < 0) leaked.push_back((int)o);
    if (alive[o] && holder[o] < 0 && expected_leak[o]) nexp++;
  }
  bool leak = (size_t)created == destroyed.size() + nheld + ndrained + leaked.size() && leaked.size() == nexp;
  std::string o;
  for (size_t t = 0; t < nt; ++t) o += (t ? "|" : "") + out[t];
  printf("%s ok steps=%llu | %s cached=%s destroyed=%s rec=%s fresh=%d leaked=%s held=%s | owner=%d route=%d recycle=%d "
         "leak=%d count=%d twice=%d nocreate=%d moved=%d nofresh=%d\n", id, (unsigned long long)r.steps, o.c_str(), cs.c_str(),
         lst(destroyed).c_str(), rs.c_str(), created, lst(leaked).c_str(), lst(hl).c_str(), owner, route, recycle, leak,
         count_ok, !Obj::twice, nocreate, moved, nofresh);
  for (auto& hs : held) for (auto& h : hs) h.wrapped.release();
  for (auto* p : pools) delete p;
  for (auto* g : graveyard) delete g;
  Obj::hook = nullptr;
  for (void* m : mem) ::operator delete(m);
}

// ------------------------------------------------------------------------------------------- B
static void run_batch(const char* id, size_t batch, size_t nt, unsigned long long seed, int strategy,
                      const std::string& prog) {
  // global sequence: ops separated by ','
  struct BOp { char k; size_t t; size_t n; };
  std::vector<BOp> ops;
  { std::stringstream ss(prog); std::string o;
    while (std::getline(ss, o, ',')) if (!o.empty()) {
      BOp b{o[0], (size_t)atol(o.c_str() + 1), 0};
      auto c = o.find(':'); if (c != std::string::npos) b.n = (size_t)atol(o.c_str() + c + 1);
      ops.push_back(b);
    } }
  Rec up;
  auto* ba = new BatchPageAllocator;
  ba->set_upstream(up);
  if (batch) ba->set_batch_size(batch);
  CountingPageAllocator ca;
  ca.set_upstream(*ba);
  std::vector<std::vector<void*>> held(nt);
  std::vector<std::vector<int>> rest(nt);
  bool owner = true, known = true, count_ok = true;
  volatile size_t turn = 0, started = 0;
  auto take = [&](size_t t, void* p) {
    auto it = up.ids.find(p);
    if (it == up.ids.end()) { known = false; return; }
    int pid = it->second;
    if (!up.live[pid] || up.holder[pid] >= 0) owner = false;
    up.holder[pid] = (int)t;
    held[t].push_back(p);
  };
  std::vector<std::function<void()>> bodies;
  for (size_t t = 0; t < nt; ++t) {
    bodies.push_back([&, t] {
      (void)ba->_cache.local();                   // every thread owns its Slot (babylon thread id) for the whole case
      started = started + 1;
      while (started != nt) sched_yield();
      for (size_t i = 0; i < ops.size(); ++i) {
        if (ops[i].t != t) continue;
        while (turn != i) sched_yield();
        auto& op = ops[i];
        if (op.k == 'a') take(t, ca.allocate());
        else if (op.k == 'n') { std::vector<void*> pg(op.n, nullptr); ca.allocate(pg.data(), op.n); for (void* p : pg) take(t, p); }
        else if (op.k == 'f') { if (!held[t].empty()) { void* p = held[t].front(); held[t].erase(held[t].begin()); up.holder[up.ids[p]] = -2 - (int)t; ca.deallocate(p); } }
        else if (op.k == 'm') {
          size_t n = std::min(op.n, held[t].size());
          std::vector<void*> pg(held[t].begin(), held[t].begin() + (long)n);
          held[t].erase(held[t].begin(), held[t].begin() + (long)n);
          for (void* p : pg) up.holder[up.ids[p]] = -2 - (int)t;
          ca.deallocate(pg.data(), n);
        }
        size_t nh = 0; for (auto& h : held) nh += h.size();
        if (ca.allocated_page_num() != nh) count_ok = false;
        turn = i + 1;
      }
      while (turn != ops.size()) sched_yield();
      auto& local = ba->_cache.local();           // pages still prefetched by this thread
      for (auto it = local.next_page; it < local.buffer.end(); ++it) {
        auto f = up.ids.find(*it);
        rest[t].push_back(f == up.ids.end() ? -1 : f->second);
      }
    });
  }
  verif::Result r = run_threads(bodies, seed, strategy);
  size_t nheld = 0, nrest = 0;
  std::string hs, rs;
  for (size_t t = 0; t < nt; ++t) {
    std::vector<int> h; for (void* p : held[t]) h.push_back(up.ids[p]);
    hs += (t ? "|" : "") + lst(h); rs += (t ? "|" : "") + lst(rest[t]);
    nheld += held[t].size(); nrest += rest[t].size();
    for (int pid : rest[t]) if (pid < 0 || !up.live[pid] || up.holder[pid] >= 0) owner = false;
  }
  bool conserve = up.nlive() == nheld + nrest;
  std::vector<int> ret_before = up.returned;
  size_t apn = ca.allocated_page_num();
  delete ba;                                      // ~BatchPageAllocator returns every thread's prefetched pages
  bool dtor = up.nlive() == nheld && up.returned.size() == ret_before.size() + nrest;
  printf("%s ok steps=%llu | held=%s rest=%s returned=%s fresh=%zu count=%zu | owner=%d known=%d dblfree=%d freeheld=%d "
         "conserve=%d dtor=%d counting=%d\n", id, (unsigned long long)r.steps, hs.c_str(), rs.c_str(),
         lst(ret_before).c_str(), up.pages.size(), apn, owner, known, !(up.double_free || up.bad_free), !up.free_held,
         conserve, dtor, count_ok);
}

int main() {
  static char line[1 << 16];
  while (fgets(line, sizeof line, stdin)) {
    char id[64], kind[8];
    static char prog[1 << 16];
    unsigned long long seed; int strategy; unsigned long p1, p2;
    if (sscanf(line, "%63s %7s %llu %d %lu %lu %65000s", id, kind, &seed, &strategy, &p1, &p2, prog) != 7) continue;
    switch (kind[0]) {
      case 'C': {
        Rec* up = new Rec;
        auto* ca = new CachedPageAllocator;
        ca->set_upstream(*up);
        ca->set_free_page_capacity(p1);
        run_pages(id, ca, up, false, seed, strategy, prog);
        delete up;
      } break;
      case 'H': {
        auto* hp = new PageHeap;
        hp->set_page_size(64);
        hp->set_free_page_capacity(p1);
        run_pages(id, hp, (Rec*)nullptr, true, seed, strategy, prog);
      } break;
      case 'P': run_pool(id, false, p1, seed, strategy, prog); break;
      case 'S': run_pool(id, true, p1, seed, strategy, prog); break;
      case 'B': run_batch(id, p1, p2, seed, strategy, prog); break;
      case 'M': run_multi(id, p1, p2, seed, strategy, prog); break;
    }
    fflush(stdout);
  }
  return 0;
}
