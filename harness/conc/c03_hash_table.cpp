// C03 driver: real babylon::ConcurrentFixedSwissTable / ConcurrentTransientHashSet / ConcurrentTransientHashMap under the
// deterministic scheduler (every atomic op of the table code is a scheduling point; extra K_USER points sit in the hash
// functor (before the first SIMD group load), in the key equality (between the group load + acquire fence and the slot
// read) and at the start of the element constructor (between CAS EMPTY->BUSY and the construction)).
// stdin lines:  <case-id> <sched-seed> <strategy> <mode> <cap> <hashes|-> <prefill|-> <program> <choices|-> [<setup|->]
//   setup   = keys emplaced sequentially and then clear()ed before everything else (a container that was used before);
//             lower-case mode x / s / m = the same containers over TRIVIALLY DESTRUCTIBLE element types
//   mode    = X ConcurrentFixedSwissTable<Elem,HF> | S ConcurrentTransientHashSet<Elem,HF> | M ConcurrentTransientHashMap<Key,Val,HF>
//   cap     = min_bucket_count, or D = default constructor (placeholder head)
//   hashes  = k:h,k:h,...  harness-chosen hash of key k (decimal); other keys hash to (k*131+7) % 1048576
//   prefill = comma separated keys emplaced sequentially before the threads start (value 9000+k)
//   program = threads separated by '|', ops separated by ',' (value of the op of thread t at position i is 100*(t+1)+i):
//     E<k> emplace(rvalue)   I<k> insert(const&)   T<k> try_emplace (map) / emplace(lvalue) (set, fixed)
//     B<k> map[k] (set/fixed: emplace)             F<k> find          C<k> contains
//     L<k> emplace(rvalue) whose element constructor blocks for 15 ms of VIRTUAL time (usleep under dsched) between the
//          CAS EMPTY->BUSY and the tag store: every other inserter of a colliding key has to wait on the BUSY byte
//   choices = comma separated replay list for strategy 2
// stdout: <case-id> ok steps=<n> | <per-op results: +v inserted, -v existed, X full, bv operator[], v / . find, 1 / 0 contains>
//         fin=<sorted k:v> size=<n> tabs=<bucket counts> | <monitor>=0/1 ... [! first violation]
#include "shim/prelude.h"
#include "babylon/concurrent/transient_hash_table.h"
#include "babylon/concurrent/transient_hash_table.cpp"
#undef atomic
#undef atomic_thread_fence

#include <cstdio>
#include <cstring>
#include <map>
#include <set>
#include <sstream>

using namespace babylon;

static const uint32_t MAGIC = 0xC03C03C0u;
static std::map<int, uint64_t>* g_hash;
static std::map<const void*, int>* g_ctor;    // copy/move constructions per address (in-table constructions)
static std::map<const void*, int>* g_dtor;
static bool g_read_raw = false;               // key comparison looked at a slot that is not (fully) constructed
static bool g_double_consume = false;         // an argument already moved-from was consumed again
static std::string* g_first;
static thread_local int tl_cur_v = 0;
static thread_local bool tl_slow = false;   // the in-table constructor of the current op sleeps (virtual time)
static inline void slow_ctor() { if (tl_slow && verif::self() >= 0) usleep(15000); }

static inline void upoint(int line) {
  if (verif::self() >= 0) verif::point(verif::K_USER, 0, nullptr, __FILE__, line);
}
static void note(const std::string& s) { if (g_first->empty()) *g_first = s; }
static uint64_t hash_of(int k) {
  auto it = g_hash->find(k);
  return it != g_hash->end() ? it->second : (uint64_t)((k * 131 + 7) % 1048576);
}

// element / key / mapped types, twice: with a (tracking) destructor, and trivially destructible (no destructor at all: a
// slot of a previous generation keeps its bytes after clear())
#define C03_ELEM(NAME, DTOR)                                                                                          \
  struct NAME {                                                                                                       \
    int id; int val; volatile uint32_t magic; mutable bool moved = false;                                             \
    NAME(int i, int v) : id(i), val(v), magic(MAGIC) {}                                                               \
    NAME(NAME&& o) noexcept {                                                                                         \
      upoint(__LINE__); slow_ctor();                                                                                  \
      if (o.moved) { g_double_consume = true; note("argument consumed twice"); }                                      \
      id = o.id; val = o.val; o.moved = true; magic = MAGIC; (*g_ctor)[this]++;                                       \
    }                                                                                                                 \
    NAME(const NAME& o) noexcept { upoint(__LINE__); id = o.id; val = o.val; magic = MAGIC; (*g_ctor)[this]++; }      \
    DTOR                                                                                                              \
    /* the table calls  E::extract(at(index)) == key : the left operand is the stored element */                     \
    friend bool operator==(const NAME& stored, const NAME& key) noexcept {                                            \
      upoint(__LINE__);                                                                                               \
      if (stored.magic != MAGIC) { g_read_raw = true; note("key comparison read a slot that is not constructed"); }   \
      return stored.id == key.id;                                                                                     \
    }                                                                                                                 \
  };
#define C03_KEY(NAME, DTOR)                                                                                           \
  struct NAME {                                                                                                       \
    int id; volatile uint32_t magic;                                                                                  \
    NAME(int i) : id(i), magic(MAGIC) {}                                                                              \
    NAME(const NAME& o) noexcept { upoint(__LINE__); slow_ctor(); id = o.id; magic = MAGIC; (*g_ctor)[this]++; }      \
    DTOR                                                                                                              \
    friend bool operator==(const NAME& stored, const NAME& key) noexcept {                                            \
      upoint(__LINE__);                                                                                               \
      if (stored.magic != MAGIC) { g_read_raw = true; note("key comparison read a slot that is not constructed"); }   \
      return stored.id == key.id;                                                                                     \
    }                                                                                                                 \
  };
C03_ELEM(Elem, ~Elem() { if (g_ctor->count(this)) (*g_dtor)[this]++; magic = 0; })
C03_ELEM(TElem, )
C03_KEY(Key, ~Key() { if (g_ctor->count(this)) (*g_dtor)[this]++; magic = 0; })
C03_KEY(TKey, )
struct Val {
  int val; mutable bool moved = false;
  Val() : val(tl_cur_v) {}
  Val(int v) : val(v) {}
  Val(Val&& o) noexcept { if (o.moved) { g_double_consume = true; note("argument consumed twice"); } val = o.val; o.moved = true; }
  Val(const Val& o) noexcept : val(o.val) {}
};
static_assert(!std::is_trivially_destructible<Elem>::value && std::is_trivially_destructible<TElem>::value, "element kinds");
static_assert(std::is_trivially_destructible<std::pair<const TKey, Val>>::value && !std::is_trivially_destructible<std::pair<const Key, Val>>::value, "map element kinds");
struct HF {
  size_t operator()(const Elem& e) const noexcept { upoint(__LINE__); return hash_of(e.id); }
  size_t operator()(const TElem& e) const noexcept { upoint(__LINE__); return hash_of(e.id); }
  size_t operator()(const Key& k) const noexcept { upoint(__LINE__); return hash_of(k.id); }
  size_t operator()(const TKey& k) const noexcept { upoint(__LINE__); return hash_of(k.id); }
};

struct Op { char k; int key; int v; std::string res; uint64_t b = 0, e = 0; const void* addr = nullptr; int ins = -1; bool full = false;
            bool arg_moved = false; int seen_id = 0, seen_v = 0; bool seen_ok = true; bool pre = false; bool after = false; };

// aligned operator new/delete replacement: allocations whose size is that of a table buffer or of a chained node are
// tracked (tables and nodes must be freed exactly once; a loser of the `next` CAS deletes its node)
static std::set<size_t>* g_sizes;
static std::map<void*, size_t>* g_live;
static long g_bad_free = 0;
static thread_local int tl_in_hook = 0;
void* operator new(size_t n, std::align_val_t a) {
  void* p = nullptr;
  if (posix_memalign(&p, (size_t)a < sizeof(void*) ? sizeof(void*) : (size_t)a, n ? n : 1)) abort();
  if (g_sizes && !tl_in_hook && g_sizes->count(n)) { ++tl_in_hook; (*g_live)[p] = n; --tl_in_hook; }
  return p;
}
static void aligned_free(void* p) {
  if (!p) return;
  if (g_live && !tl_in_hook) { ++tl_in_hook; g_live->erase(p); --tl_in_hook; }
  free(p);
}
void operator delete(void* p, std::align_val_t) noexcept { aligned_free(p); }
void operator delete(void* p, size_t, std::align_val_t) noexcept { aligned_free(p); }

template <class Elem, class Key, class Val, bool TRIVIAL>
struct RunnerT {
  using Fixed = ConcurrentFixedSwissTable<Elem, HF>;
  using Set = ConcurrentTransientHashSet<Elem, HF>;
  using Map = ConcurrentTransientHashMap<Key, Val, HF>;
  using MBase = ConcurrentTransientHashSet<std::pair<const Key, Val>, HF, internal::concurrent_transient_hash_table::PairKeyExtractor<Key, Val>>;
  static constexpr bool trivial = TRIVIAL;
  char mode; bool dflt; size_t cap;   // mode: X S M (upper case)
  void clear() { if (fx) fx->clear(); if (st) st->clear(); if (mp) mp->clear(); }
  static void sizes(std::set<size_t>* sz) {
    sz->insert(sizeof(typename Set::TableNode)); sz->insert(sizeof(typename MBase::TableNode));
    for (size_t bc = 16; bc <= 65536; bc <<= 1) { sz->insert(Fixed::calculate_allocate_size(bc)); sz->insert(MBase::Table::calculate_allocate_size(bc)); }
  }
  Fixed* fx = nullptr; Set* st = nullptr; Map* mp = nullptr;
  void create() {
    if (mode == 'X') fx = dflt ? new Fixed() : new Fixed(cap);
    else if (mode == 'S') st = dflt ? new Set() : new Set(cap);
    else mp = dflt ? new Map() : new Map(cap);
  }
  void destroy() { delete fx; delete st; delete mp; fx = nullptr; st = nullptr; mp = nullptr; }
  void emplace_like(Op& op) {
    tl_cur_v = op.v; tl_slow = op.k == 'L';
    struct Reset { ~Reset() { tl_slow = false; } } reset_;
    if (mode == 'X') {
      Elem arg(op.key, op.v);
      auto r = op.k == 'I' ? fx->insert(static_cast<const Elem&>(arg)) : op.k == 'T' ? fx->emplace(static_cast<const Elem&>(arg)) : fx->emplace(std::move(arg));
      op.arg_moved = arg.moved;
      if (r.first == fx->end()) { op.full = true; op.ins = 0; return; }
      op.addr = &*r.first; op.ins = r.second; op.seen_id = r.first->id; op.seen_v = r.first->val; op.seen_ok = r.first->magic == MAGIC;
    } else if (mode == 'S') {
      Elem arg(op.key, op.v);
      auto r = op.k == 'I' ? st->insert(static_cast<const Elem&>(arg)) : op.k == 'T' ? st->emplace(static_cast<const Elem&>(arg)) : st->emplace(std::move(arg));
      op.arg_moved = arg.moved;
      if (r.first == st->end()) { op.full = true; op.ins = 0; return; }
      op.addr = &*r.first; op.ins = r.second; op.seen_id = r.first->id; op.seen_v = r.first->val; op.seen_ok = r.first->magic == MAGIC;
    } else {
      Key key(op.key);
      if (op.k == 'B') {
        Val& v = (*mp)[key];
        op.addr = reinterpret_cast<const char*>(&v) - offsetof(typename Map::value_type, second);
        auto* p = reinterpret_cast<const typename Map::value_type*>(op.addr);
        op.ins = -1; op.seen_id = p->first.id; op.seen_v = v.val; op.seen_ok = p->first.magic == MAGIC;
        return;
      }
      Val val(op.v);
      std::pair<typename Map::iterator, bool> r;
      if (op.k == 'I') { typename Map::value_type pr(key, Val(op.v)); r = mp->insert(static_cast<const typename Map::value_type&>(pr)); }
      else if (op.k == 'T') r = mp->try_emplace(key, std::move(val));
      else r = mp->emplace(key, std::move(val));
      if (r.first == mp->end()) { op.full = true; op.ins = 0; return; }
      op.addr = &*r.first; op.ins = r.second; op.seen_id = r.first->first.id; op.seen_v = r.first->second.val; op.seen_ok = r.first->first.magic == MAGIC;
      if (!r.second && op.k != 'I' && val.moved) { op.arg_moved = true; }
    }
  }
  void find_like(Op& op) {
    if (op.k == 'C') {
      bool c = mode == 'X' ? fx->contains(Elem(op.key, 0)) : mode == 'S' ? st->contains(Elem(op.key, 0)) : mp->contains(Key(op.key));
      op.ins = c; return;
    }
    if (mode == 'X') { auto it = fx->find(Elem(op.key, 0)); if (it != fx->end()) { op.addr = &*it; op.seen_id = it->id; op.seen_v = it->val; op.seen_ok = it->magic == MAGIC; } }
    else if (mode == 'S') { auto it = st->find(Elem(op.key, 0)); if (it != st->end()) { op.addr = &*it; op.seen_id = it->id; op.seen_v = it->val; op.seen_ok = it->magic == MAGIC; } }
    else { auto it = mp->find(Key(op.key)); if (it != mp->end()) { op.addr = &*it; op.seen_id = it->first.id; op.seen_v = it->second.val; op.seen_ok = it->first.magic == MAGIC; } }
  }
  // final contents (sequential): sorted k:v, size(), bucket counts of the chain, address ranges of the value arrays
  void final_state(std::vector<std::pair<int, int>>& elems, std::vector<const void*>& addrs, size_t& size, std::string& tabs,
                   std::vector<std::pair<const char*, const char*>>& ranges) {
    if (mode == 'X') {
      for (auto it = fx->begin(); it != fx->end(); ++it) { elems.push_back({it->id, it->val}); addrs.push_back(&*it); }
      size = fx->size(); tabs = std::string(fx->_controls == Fixed::Group::s_dummy_controls ? "d" : "") + std::to_string(fx->bucket_count());
      if (fx->_values) ranges.push_back({(const char*)fx->_values, (const char*)(fx->_values + fx->bucket_count())});
    } else if (mode == 'S') {
      for (auto it = st->begin(); it != st->end(); ++it) { elems.push_back({it->id, it->val}); addrs.push_back(&*it); }
      size = st->size();
      for (auto* n = &st->_head; n; n = n->next.load()) {
        tabs += (tabs.empty() ? "" : "+") + std::string(n->table._controls == Fixed::Group::s_dummy_controls ? "d" : "") + std::to_string(n->table.bucket_count());
        if (n->table._values) ranges.push_back({(const char*)n->table._values, (const char*)(n->table._values + n->table.bucket_count())});
      }
    } else {
      for (auto it = mp->begin(); it != mp->end(); ++it) { elems.push_back({it->first.id, it->second.val}); addrs.push_back(&*it); }
      size = mp->size();
      MBase* b = mp;
      for (auto* n = &b->_head; n; n = n->next.load()) {
        tabs += (tabs.empty() ? "" : "+") + std::string(n->table._values == nullptr ? "d" : "") + std::to_string(n->table.bucket_count());
        if (n->table._values) ranges.push_back({(const char*)n->table._values, (const char*)(n->table._values + n->table.bucket_count())});
      }
    }
  }
};

struct Case { std::string id, mode, cap, prefill, prog, choices, setup; unsigned long long seed; int strategy; };

template <class R_>
static void run_case(const Case& cs_, std::vector<std::vector<Op>>& threads) {
    const std::string &id = cs_.id, &mode = cs_.mode, &cap = cs_.cap, &prefill = cs_.prefill, &prog = cs_.prog, &choices = cs_.choices, &setup = cs_.setup;
    unsigned long long seed = cs_.seed; int strategy = cs_.strategy;
    size_t aligned0 = g_live->size();
    R_ R; R.mode = (char)toupper(mode[0]); R.dflt = cap == "D"; R.cap = R.dflt ? 0 : strtoul(cap.c_str(), nullptr, 10);
    R.create();
    if (setup != "-") {
      // a previous generation: keys emplaced sequentially (value 8000+k), then clear(); the client program runs on the
      // cleared container (the model starts from a fresh table of the resulting capacity)
      std::vector<Op> su; std::stringstream ps(setup); std::string k;
      while (std::getline(ps, k, ',')) { Op op; op.k = 'E'; op.key = atoi(k.c_str()); op.v = 8000 + op.key; su.push_back(op); }
      std::vector<std::function<void()>> pb; pb.push_back([&] { for (auto& op : su) R.emplace_like(op); R.clear(); });
      verif::Options po; po.seed = 1; po.strategy = 0; po.max_steps = 200000;
      verif::run(pb, po);
      g_ctor->clear(); g_dtor->clear();
    }
    std::vector<Op> pre;
    if (prefill != "-") {
      std::stringstream ps(prefill); std::string k;
      while (std::getline(ps, k, ',')) { Op op; op.k = 'E'; op.pre = true; op.key = atoi(k.c_str()); op.v = 9000 + op.key; pre.push_back(op); }
      // sequential, but under the scheduler: a broken table that spins for ever is reported as DSCHED-STUCK
      std::vector<std::function<void()>> pb; pb.push_back([&] { for (auto& op : pre) R.emplace_like(op); });
      verif::Options po; po.seed = 1; po.strategy = 0; po.max_steps = 200000;
      verif::run(pb, po);
    }
    std::vector<std::function<void()>> bodies;
    for (size_t t = 0; t < threads.size(); ++t) {
      bodies.push_back([&, t] {
        for (auto& op : threads[t]) {
          op.b = verif::stamp();
          if (op.k == 'F' || op.k == 'C') R.find_like(op); else R.emplace_like(op);
          op.e = verif::stamp();
        }
      });
    }
    verif::Options opt; opt.seed = seed; opt.strategy = strategy;
    opt.max_steps = prog.find('L') != std::string::npos ? 900000 : 60000;   // slow-constructor cases spin through the virtual sleep
    if (choices != "-") { std::stringstream cs(choices); std::string c; while (std::getline(cs, c, ',')) opt.choices.push_back(atoi(c.c_str())); }
    verif::Result r = verif::run(bodies, opt);
    // ---------------------------------------------------------------- canonical outcome
    std::string out;
    std::vector<Op*> all;
    for (auto& op : pre) all.push_back(&op);
    for (auto& th : threads) for (auto& op : th) all.push_back(&op);
    std::map<int, std::vector<Op*>> by_key;
    for (Op* op : all) by_key[op->key].push_back(op);
    auto started_after = [](const Op* a, const Op* f) { return !f->pre && (a->pre || f->b > a->e); };
    for (auto& kv : by_key) for (Op* f : kv.second) if (f->k == 'F' || f->k == 'C')
      for (Op* a : kv.second) if (a->k != 'F' && a->k != 'C' && a->addr && started_after(a, f)) f->after = true;
    for (size_t t = 0; t < threads.size(); ++t) {
      for (size_t i = 0; i < threads[t].size(); ++i) {
        Op& op = threads[t][i];
        if (op.k == 'C') op.res = std::string(op.after ? "^" : "") + (op.ins ? "1" : "0");
        else if (op.k == 'F') op.res = std::string(op.after ? "^" : "") + (op.addr ? std::to_string(op.seen_v) : ".");
        else if (op.full) op.res = "X";
        else if (op.k == 'B' && R.mode == 'M') op.res = "b" + std::to_string(op.seen_v);
        else op.res = (op.ins ? "+" : "-") + std::to_string(op.seen_v);
        out += op.res + (i + 1 < threads[t].size() ? "," : "");
      }
      out += t + 1 < threads.size() ? "|" : "";
    }
    std::vector<std::pair<int, int>> elems; std::vector<const void*> addrs; size_t size = 0; std::string tabs;
    std::vector<std::pair<const char*, const char*>> ranges;
    R.final_state(elems, addrs, size, tabs, ranges);
    // ---------------------------------------------------------------- monitors (the property text, on the real run)
    bool phantom = true, winner = true, same = true, visible = true, ctor1 = true, noconsume = true, fullok = true, nodrop = true, nodup = true, sizeok = true;
    std::map<int, int> final_count; std::map<int, const void*> final_addr; std::map<int, int> final_val;
    for (size_t i = 0; i < elems.size(); ++i) { final_count[elems[i].first]++; final_addr[elems[i].first] = addrs[i]; final_val[elems[i].first] = elems[i].second; }
    for (auto& kv : by_key) {
      int k = kv.first; int wins = 0; const void* addr = nullptr; bool any_slot = false; int win_v = 0; int unknown = 0;
      for (Op* op : kv.second) {
        bool emp = op->k != 'F' && op->k != 'C';
        if (emp && op->ins == 1) { ++wins; win_v = op->v; }
        if (emp && op->ins == -1) ++unknown;       // operator[]: inserted flag not observable
        if (op->addr) {
          if (emp) any_slot = true;
          if (addr && addr != op->addr) { same = false; note("two operations on key " + std::to_string(k) + " returned different elements"); }
          addr = op->addr;
          if (!op->seen_ok || op->seen_id != k) { same = false; note("operation on key " + std::to_string(k) + " returned an element that is not fully constructed / has another key"); }
        }
      }
      if (any_slot && (wins > 1 || (wins == 0 && unknown == 0))) { winner = false; note("key " + std::to_string(k) + ": " + std::to_string(wins) + " insertions reported success"); }
      if (wins == 1) for (Op* op : kv.second) if (op->addr && op->seen_v != win_v) { same = false; note("key " + std::to_string(k) + ": an operation saw value " + std::to_string(op->seen_v) + ", the winner wrote " + std::to_string(win_v)); }
      // a lookup (or insertion) that starts after an insertion of the key returned never misses it
      for (Op* a : kv.second) {
        if (a->k == 'F' || a->k == 'C' || a->full || (!a->addr)) continue;
        for (Op* f : kv.second) {
          if (f == a || !started_after(a, f)) continue;
          bool miss = (f->k == 'C') ? f->ins == 0 : (f->k == 'F') ? f->addr == nullptr : (f->full || f->ins == 1);
          if (miss) { visible = false; note("operation " + std::string(1, f->k) + std::to_string(k) + " started after an insertion of the key had returned, yet missed it"); }
        }
      }
      // a lookup returned an element although no insertion of the key had even begun (stale / foreign element)
      for (Op* f : kv.second) if ((f->k == 'F' && f->addr) || (f->k == 'C' && f->ins == 1)) {
        bool begun = false;
        for (Op* a : kv.second) if (a->k != 'F' && a->k != 'C' && (a->pre || a->b < f->e)) begun = true;
        if (!begun) { phantom = false; note("lookup of key " + std::to_string(k) + " returned an element although no insertion of it had begun"); }
      }
      if (any_slot) {
        if (final_count[k] == 0) { nodrop = false; note("key " + std::to_string(k) + " was inserted but is not in the final iteration"); }
        if (final_count[k] > 1) { nodup = false; note("key " + std::to_string(k) + " appears " + std::to_string(final_count[k]) + " times in the final iteration"); }
        if (final_count[k] == 1 && addr && final_addr[k] != addr) { same = false; note("final element of key " + std::to_string(k) + " is not the one the operations returned"); }
      } else if (final_count[k] > 0) { nodup = false; note("key " + std::to_string(k) + " is in the table although no insertion returned it"); }
      for (Op* op : kv.second) {
        if (op->full && op->arg_moved) { noconsume = false; note("insertion into a full table consumed its argument"); }
        if (!op->full && op->ins == 0 && op->arg_moved) { noconsume = false; note("insertion that found the key consumed its argument"); }
      }
    }
    for (auto& e : elems) if (!by_key.count(e.first)) { nodup = false; note("foreign key in final iteration"); }
    bool any_full = false; for (Op* op : all) any_full |= op->full;
    if (any_full && (R.mode != 'X' || (!R.dflt && size != R.fx->bucket_count()))) { fullok = false; note("insertion failed although the table is not full / is a growing container"); }
    if (size != elems.size()) { sizeok = false; note("size() = " + std::to_string(size) + " but iteration yields " + std::to_string(elems.size())); }
    // constructed exactly once: every address inside a value array that was constructed was constructed once and holds a final element
    std::set<const void*> final_set(addrs.begin(), addrs.end());
    size_t in_table_ctor = 0;
    for (auto& c : *g_ctor) {
      bool in = false; for (auto& rg : ranges) in |= ((const char*)c.first >= rg.first && (const char*)c.first < rg.second);
      if (!in) continue;
      ++in_table_ctor;
      if (c.second != 1) { ctor1 = false; note("a slot was constructed " + std::to_string(c.second) + " times"); }
      if (!final_set.count(c.first)) { ctor1 = false; note("a constructed slot is not reachable by iteration"); }
    }
    if (in_table_ctor != elems.size()) { ctor1 = false; note("constructed slots " + std::to_string(in_table_ctor) + " != elements " + std::to_string(elems.size())); }
    if (g_read_raw) ctor1 = false;
    if (g_double_consume) noconsume = false;
    std::sort(elems.begin(), elems.end());
    std::string fin; for (auto& e : elems) fin += (fin.empty() ? "" : ",") + std::to_string(e.first) + ":" + std::to_string(e.second);
    size_t n_elems = elems.size();
    R.destroy();
    bool dtor = true, leak = true;
    for (auto& c : *g_ctor) { bool in = false; for (auto& rg : ranges) in |= ((const char*)c.first >= rg.first && (const char*)c.first < rg.second);
      if (!R_::trivial && in && (*g_dtor)[c.first] != c.second) { dtor = false; note("element destroyed " + std::to_string((*g_dtor)[c.first]) + " times"); } }
    if (g_live->size() != aligned0) { leak = false; note("table buffers / chained nodes leaked: " + std::to_string((long)g_live->size() - (long)aligned0)); g_live->clear(); }
    printf("%s ok steps=%llu | %s fin=%s size=%zu tabs=%s | phantom=%d winner=%d same=%d visible=%d ctor=%d noconsume=%d fullok=%d nodrop=%d nodup=%d size=%d dtor=%d leak=%d%s%s\n",
           id.c_str(), (unsigned long long)r.steps, out.c_str(), fin.empty() ? "-" : fin.c_str(), n_elems, tabs.c_str(), phantom, winner, same, visible, ctor1, noconsume, fullok,
           nodrop, nodup, sizeok, dtor, leak, g_first->empty() ? "" : " ! ", g_first->c_str());
    fflush(stdout);
}

int main() {
  static char line[1 << 16];
  g_hash = new std::map<int, uint64_t>(); g_ctor = new std::map<const void*, int>(); g_dtor = new std::map<const void*, int>();
  g_first = new std::string();
  {
    auto* sz = new std::set<size_t>(); g_live = new std::map<void*, size_t>();
    RunnerT<Elem, Key, Val, false>::sizes(sz); RunnerT<TElem, TKey, Val, true>::sizes(sz);
    g_sizes = sz;
  }
  while (fgets(line, sizeof line, stdin)) {
    std::stringstream ls(line);
    std::string id, mode, cap, hashes, prefill, prog, choices, setup = "-"; unsigned long long seed; int strategy;
    if (!(ls >> id >> seed >> strategy >> mode >> cap >> hashes >> prefill >> prog >> choices)) continue;
    if (!(ls >> setup)) setup = "-";
    g_hash->clear(); g_ctor->clear(); g_dtor->clear(); g_read_raw = false; g_double_consume = false; g_first->clear();
    if (hashes != "-") { std::stringstream hs(hashes); std::string kv; while (std::getline(hs, kv, ',')) { auto c = kv.find(':'); (*g_hash)[atoi(kv.c_str())] = strtoull(kv.c_str() + c + 1, nullptr, 10); } }
    std::vector<std::vector<Op>> threads;
    { std::stringstream ss(prog); std::string th; int t = 0;
      while (std::getline(ss, th, '|')) { std::vector<Op> ops; std::stringstream s2(th); std::string o; int i = 0;
        while (std::getline(s2, o, ',')) if (!o.empty()) { Op op; op.k = o[0]; op.key = atoi(o.c_str() + 1); op.v = 100 * (t + 1) + i; ops.push_back(op); ++i; }
        threads.push_back(ops); ++t; } }
    Case cs_{id, mode, cap, prefill, prog, choices, setup, seed, strategy};
    if (islower((unsigned char)mode[0])) run_case<RunnerT<TElem, TKey, Val, true>>(cs_, threads);
    else run_case<RunnerT<Elem, Key, Val, false>>(cs_, threads);
  }
  return 0;
}
