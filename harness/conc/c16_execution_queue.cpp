// C16 driver: real babylon::ConcurrentExecutionQueue<uint64_t> (with the REAL ConcurrentBoundedQueue inside) under
// the deterministic scheduler, with a harness Executor whose submit is refused according to a fault list.
// stdin lines:  <case-id> <sched-seed> <strategy> <capacity> <mode> <faults> <program>
//   mode    I = inline executor (the launching producer becomes the consumer), A = asynchronous (one new thread
//           per accepted launch); a trailing 's' (As / Is) makes the consume function slow: it sleeps 2.5 ms of virtual
//           time per item (longer than join()'s 1 ms polling period)
//   faults  string over {0,1}, one character per submit attempt in global order, 1 = refuse; "-" = none; attempts
//           beyond the string are accepted
//   program threads separated by '|', ops separated by ',':
//     E   queue.execute(T&&)            item = (thread, op index), passed as a temporary
//     C   queue.execute(const T&)       the copying overload: item passed as a named lvalue (result printed as E<rc>)
//     S   queue.signal_push_event()     (explicit recovery signal)
//     J   queue.join()
// stdout: one line per case:
//   <case-id> ok steps=<n> pre=<n> | <per-op results> del=<delivery order> | <monitor verdicts>
//   results: E0 / E-1 (return code), S0 / S-1, J<k> (k = items whose execute() had returned and that were not yet
//   consumed when join() returned).
// Monitors (1 = holds):
//   once     no item consumed twice; at the end every item consumed exactly once unless the last reset of the event
//            counter was a refused launch
//   order    items of one producer consumed in submission order
//   single   consume callback never entered while another invocation is inside
//   covered  whenever an execute()/signal returns or a consumer exits: items whose execute() returned and that are not
//            consumed have a running/launched consumer or a launcher (unless a refused launch is outstanding)
//   final    at the end every item was consumed (unless a refused launch is outstanding)
//   idle     at the end the event counter is zero and no consumer is live
//   join     join() returns only when every item whose execute() returned before join() was called is consumed
//            (unless a refused launch is outstanding)
#include "shim/prelude.h"
#include "babylon/concurrent/execution_queue.h"

#include <cstdio>
#include <cstring>
#include <sstream>

using namespace babylon;

namespace {

thread_local int g_cur = -1;   // index of the client thread running this code (-1: spawned consumer thread)

inline bool is_exec(char k) { return k == 'E' || k == 'C'; }

struct Op { char k; std::string res; uint64_t b = 0, e = 0; };

struct World {
  ConcurrentExecutionQueue<uint64_t> q;
  std::vector<std::vector<Op>> threads;
  std::string faults; size_t attempts = 0;
  bool async = false, slow = false;
  // ghost state (only one registered thread runs at a time: plain variables)
  int live = 0;            // accepted launches whose consume_until_empty has not returned
  int depth = 0;           // consume callback nesting
  bool stale = false;      // last reset of the event counter was a refused launch
  std::vector<int> in_exec;      // thread is inside execute()/signal_push_event(): 0 no, 1 yes, 2 yes and launching
  std::vector<std::vector<int>> consumed, returned; std::vector<std::vector<uint64_t>> ret_stamp;
  std::vector<std::pair<int, int>> order;
  bool once = true, single = true, covered = true, join_ok = true;
  std::vector<std::thread*> spawned; size_t nspawn = 0;   // slots pre-sized: creation is a scheduling point

  static uint64_t enc(size_t t, size_t i) { return ((uint64_t)(t + 1) << 32) | (uint64_t)i; }
  bool dec(uint64_t v, size_t* t, size_t* i) const {
    if ((v >> 32) == 0 || (v >> 32) > threads.size()) return false;
    *t = (size_t)(v >> 32) - 1; *i = (size_t)(v & 0xffffffffu);
    return *i < threads[*t].size() && is_exec(threads[*t][*i].k);
  }
  size_t raw(const void* p) const { return *(volatile const size_t*)p; }
  size_t missing(uint64_t before) const {   // items whose execute returned (before stamp `before`, 0 = any) and not consumed
    size_t m = 0;
    for (size_t t = 0; t < threads.size(); ++t)
      for (size_t i = 0; i < threads[t].size(); ++i)
        if (is_exec(threads[t][i].k) && returned[t][i] && consumed[t][i] == 0 && (before == 0 || ret_stamp[t][i] < before)) ++m;
    return m;
  }
  bool launcher_present() const { for (int x : in_exec) if (x == 2) return true; return false; }
  void check_covered() {
    if (stale || live > 0 || launcher_present() || missing(0) == 0) return;
    covered = false;
  }
};

struct FaultyExecutor : public Executor {
  World* w = nullptr;
  int invoke(MoveOnlyFunction<void(void)>&& function) noexcept override {
    if (g_cur >= 0) w->in_exec[(size_t)g_cur] = 2;   // launcher until execute()/signal_push_event() returns
    bool refuse = w->attempts < w->faults.size() && w->faults[w->attempts] == '1';
    ++w->attempts;
    if (refuse) return -1;
    ++w->live;
    if (!w->async) {
      function();
      --w->live; w->stale = false;
      // the launching producer is still inside execute(): it returns without another atomic operation
      return 0;
    }
    auto* fn = new MoveOnlyFunction<void(void)>(std::move(function));
    World* ww = w;
    size_t slot = w->nspawn++;
    w->spawned[slot] = new std::thread([fn, ww] {
      (*fn)();
      --ww->live; ww->stale = false;
      ww->check_covered();
      delete fn;
    });
    return 0;
  }
};

}  // namespace

int main(int argc, char** argv) {
  char line[8192];
  while (fgets(line, sizeof line, stdin)) {
    char id[64], prog[7000], mode[8], faults[512];
    unsigned long long seed; int strategy; unsigned long cap;
    if (sscanf(line, "%63s %llu %d %lu %7s %511s %6999s", id, &seed, &strategy, &cap, mode, faults, prog) != 7) continue;
    World* w = new World();
    {
      std::stringstream ss(prog); std::string th;
      while (std::getline(ss, th, '|')) {
        std::vector<Op> ops; std::stringstream s2(th); std::string o;
        while (std::getline(s2, o, ',')) if (!o.empty()) ops.push_back(Op{o[0], ""});
        w->threads.push_back(ops);
      }
    }
    size_t nt = w->threads.size();
    w->faults = strcmp(faults, "-") == 0 ? "" : faults;
    w->async = mode[0] == 'A'; w->slow = mode[1] == 's';
    w->in_exec.assign(nt, 0);
    { size_t nsig = 0; for (auto& th : w->threads) nsig += th.size(); w->spawned.assign(nsig + 1, nullptr); }
    w->consumed.resize(nt); w->returned.resize(nt); w->ret_stamp.resize(nt);
    for (size_t t = 0; t < nt; ++t) { w->consumed[t].assign(w->threads[t].size(), 0); w->returned[t].assign(w->threads[t].size(), 0); w->ret_stamp[t].assign(w->threads[t].size(), 0); }
    FaultyExecutor ex; ex.w = w;
    bool order_ok = true;
    std::vector<long> last_seq(nt, -1);
    w->q.initialize(cap, ex, [w, &order_ok, &last_seq](ConcurrentBoundedQueue<uint64_t>::Iterator b, ConcurrentBoundedQueue<uint64_t>::Iterator e) {
      if (++w->depth != 1) w->single = false;           // entry marker
      for (auto it = b; it != e; ++it) {
        size_t t, i;
        if (!w->dec(*it, &t, &i)) { w->once = false; continue; }
        if (++w->consumed[t][i] != 1) w->once = false;
        if ((long)i <= last_seq[t]) order_ok = false;
        last_seq[t] = (long)i;
        w->order.push_back({(int)t, (int)i});
        if (w->slow) usleep(2500); else sched_yield();   // scheduling point inside the callback
      }
      if (w->depth != 1) w->single = false;
      --w->depth;                                        // exit marker
    });
    std::vector<std::function<void()>> bodies;
    for (size_t t = 0; t < nt; ++t) {
      bodies.push_back([w, t] {
        g_cur = (int)t;
        for (size_t i = 0; i < w->threads[t].size(); ++i) {
          Op& op = w->threads[t][i];
          op.b = verif::stamp();
          switch (op.k) {
            case 'E': case 'C': case 'S': {
              w->in_exec[t] = 1;
              int rc;
              if (op.k == 'E') rc = w->q.execute(World::enc(t, i));                       // execute(T&&)
              else if (op.k == 'C') { const uint64_t item = World::enc(t, i); rc = w->q.execute(item); }  // execute(const T&)
              else rc = w->q.signal_push_event();
              // no scheduling point since the last atomic operation of the call
              w->in_exec[t] = 0;
              if (is_exec(op.k)) { w->returned[t][i] = 1; w->ret_stamp[t][i] = verif::stamp(); }
              if (rc != 0) w->stale = true;
              op.res = std::string(1, op.k == 'C' ? 'E' : op.k) + std::to_string(rc);
              w->check_covered();
            } break;
            case 'J': {
              w->q.join();
              size_t strong = w->missing(0), weak = w->missing(op.b);
              if (weak != 0 && !w->stale) w->join_ok = false;
              op.res = "J" + std::to_string(strong);
            } break;
          }
          op.e = verif::stamp();
        }
      });
    }
    verif::Options opt; opt.seed = seed; opt.strategy = strategy; opt.max_steps = 300000;
    verif::Result r = verif::run(bodies, opt);
    for (auto* th : w->spawned) if (th) { th->join(); delete th; }
    std::string out;
    for (size_t t = 0; t < nt; ++t) {
      for (size_t i = 0; i < w->threads[t].size(); ++i) out += w->threads[t][i].res + (i + 1 < w->threads[t].size() ? "," : "");
      out += (t + 1 < nt ? "|" : "");
    }
    out += " del=";
    for (size_t k = 0; k < w->order.size(); ++k) out += (k ? "," : "") + std::to_string(w->order[k].first) + "." + std::to_string(w->order[k].second);
    // final: nothing stranded unless a refused launch is outstanding
    bool final_ok = true;
    if (!w->stale)
      for (size_t t = 0; t < nt; ++t)
        for (size_t i = 0; i < w->threads[t].size(); ++i)
          if (is_exec(w->threads[t][i].k) && w->consumed[t][i] != 1) final_ok = false;
    size_t events_end = w->raw(&w->q._events);
    bool idle_ok = events_end == 0 && w->live == 0 && w->depth == 0;
    printf("%s ok steps=%llu pre=%llu | %s | once=%d order=%d single=%d covered=%d join=%d final=%d idle=%d stale=%d\n", id,
           (unsigned long long)r.steps, (unsigned long long)r.preemptions, out.c_str(), w->once, order_ok, w->single,
           w->covered, w->join_ok, final_ok, idle_ok, (int)w->stale);
    fflush(stdout);
    delete w;
  }
  return 0;
}
