// C19 concurrent driver: destruction of one counter racing with construction of (and counting into) ANOTHER counter of
// the same instantiation, under the deterministic scheduler.  Scheduling points: every atomic operation of babylon
// (instance-id allocator pop/push, thread-id allocator, block-table loads of the concurrent vector) and, for the
// hooked element type, every element assignment of the destructor's zeroing sweep (the hook is harness code: it only
// makes a pre-emption inside the sweep schedulable; the library is untouched).
//
// stdin :  <case-id> <kind> <seed> <strategy> <pre> <nfree> <xadds> <bwarm> <cwarm> <vals-B> <vals-C> <choices>
//   strategy 2 replays <choices> (comma separated, "-" none): index into [current, other runnable threads...] at each point
//   kind   H CompactEnumerableThreadLocal<Hooked,1,true> | A ConcurrentAdder | X ConcurrentMaxer
//   pre    instances constructed (and kept) before X ; nfree instances constructed and destroyed before X (free list)
//   xadds  1: thread A counts into X before destroying it
//   bwarm/cwarm 1: thread B / C first touches the long-lived neighbour V (so it owns a thread slot before the race)
//   vals   comma separated values ("-" none): B constructs Y and counts vals-B into it; C counts vals-C into V
// Threads: A = [count X], destroy X ;  B = [touch V], construct Y, count ;  C = [touch V], count into V.
// stdout:  <case-id> ok steps=<n> | y=<read>/<want> v=<read>/<want> z=<read> recycled=<0/1> | fresh=.. exact=.. neighbour=..
#include "shim/prelude.h"
#include "babylon/concurrent/counter.h"

#include <sys/wait.h>
#include <unistd.h>

#include <cstdio>
#include <cstring>
#include <sstream>

using namespace babylon;
typedef long long ll;

struct Hooked {
  long v {0};
  Hooked() = default;
  Hooked(const Hooked&) = default;
  Hooked& operator=(const Hooked& o) {
    verif::point(verif::K_USER, 0, this, "Hooked::operator=", 0);
    v = o.v;
    return *this;
  }
};

struct TrH {
  typedef CompactEnumerableThreadLocal<Hooked, 1, true> Obj;
  static void add(Obj& o, ll v) { auto& l = o.local(); l.v = l.v + v; }
  static ll read(Obj& o) { ll s = 0; o.for_each([&](const Hooked& h) { s += h.v; }); return s; }
  static ll iid(Obj& o) { return o._instance_id; }
  static ll combine(ll acc, ll v, bool first) { return acc + v; }
};
struct TrA {
  typedef ConcurrentAdder Obj;
  static void add(Obj& o, ll v) { o << v; }
  static ll read(Obj& o) { return o.value(); }
  static ll iid(Obj& o) { return o._storage._instance_id; }
  static ll combine(ll acc, ll v, bool first) { return acc + v; }
};
struct TrX {
  typedef ConcurrentMaxer Obj;
  static void add(Obj& o, ll v) { o << (ssize_t)v; }
  static ll read(Obj& o) { ssize_t x = 0; return o.value(x) ? (ll)x : -999999; }   // -999999: "empty period"
  static ll iid(Obj& o) { return o._storage._instance_id; }
  static ll combine(ll acc, ll v, bool first) { return first ? v : (v > acc ? v : acc); }
};

static std::vector<ll> parse_vals(const std::string& s) {
  std::vector<ll> r;
  if (s == "-") return r;
  std::stringstream ss(s);
  std::string t;
  while (std::getline(ss, t, ',')) if (!t.empty()) r.push_back(atoll(t.c_str()));
  return r;
}

template <class Tr>
static void run_case(const char* id, unsigned long long seed, int strategy, int pre, int nfree, int xadds, int bwarm, int cwarm,
                     const std::vector<ll>& vb, const std::vector<ll>& vc, const std::vector<ll>& choices) {
  typedef typename Tr::Obj Obj;
  std::vector<Obj*> keep;
  Obj* V = new Obj();                       // long-lived neighbour, shares cache lines with X / Y
  for (int i = 0; i < pre; ++i) keep.push_back(new Obj());
  {
    std::vector<Obj*> tmp;
    for (int i = 0; i < nfree; ++i) tmp.push_back(new Obj());
    for (auto* p : tmp) delete p;
  }
  Obj* X = new Obj();
  Tr::add(*X, 7);                            // main thread owns the first slot, X's column is dirty
  ll xid = Tr::iid(*X);
  Obj* Y = nullptr;
  ll want_y = 0, want_v = 0;
  bool first_y = true, first_v = true;
  bool empty_y = vb.empty(), empty_v = true;
  auto add_v = [&](ll v) { Tr::add(*V, v); want_v = Tr::combine(want_v, v, first_v); first_v = false; empty_v = false; };
  std::vector<std::function<void()>> bodies;
  bodies.push_back([&] {
    if (xadds) Tr::add(*X, 3);
    delete X;
  });
  bodies.push_back([&] {
    if (bwarm) add_v(0);
    Y = new Obj();
    for (ll v : vb) { Tr::add(*Y, v); want_y = Tr::combine(want_y, v, first_y); first_y = false; }
  });
  bodies.push_back([&] {
    if (cwarm) add_v(0);
    for (ll v : vc) add_v(v);
  });
  verif::Options opt;
  opt.seed = seed;
  opt.strategy = strategy;
  opt.max_steps = 200000;
  for (ll c : choices) opt.choices.push_back((int)c);
  verif::Result r = verif::run(bodies, opt);
  // quiescent: everything joined
  ll got_y = Y ? Tr::read(*Y) : 0, got_v = Tr::read(*V);
  if (empty_y) want_y = std::is_same<Tr, TrX>::value ? -999999 : 0;
  if (empty_v) want_v = std::is_same<Tr, TrX>::value ? -999999 : 0;
  bool recycled = Y && Tr::iid(*Y) == xid;
  Obj* Z = new Obj();                        // a counter constructed after the dust settled must be clean too
  ll got_z = Tr::read(*Z);
  ll want_z = std::is_same<Tr, TrX>::value ? -999999 : 0;
  bool exact = got_y == want_y;
  printf("%s ok steps=%llu | y=%lld/%lld v=%lld/%lld z=%lld recycled=%d | exact=%d neighbour=%d fresh=%d\n", id,
         (unsigned long long)r.steps, got_y, want_y, got_v, want_v, got_z, recycled ? 1 : 0, exact, got_v == want_v, got_z == want_z);
  fflush(stdout);
}

int main() {
  static char line[1 << 16];
  while (fgets(line, sizeof line, stdin)) {
    std::stringstream ss(line);
    std::string id, kind, sb, sc, sch = "-";
    unsigned long long seed;
    int strategy, pre, nfree, xadds, bwarm, cwarm;
    if (!(ss >> id >> kind >> seed >> strategy >> pre >> nfree >> xadds >> bwarm >> cwarm >> sb >> sc)) continue;
    ss >> sch;
    fflush(stdout);
    pid_t pid = fork();
    if (pid == 0) {
      auto vb = parse_vals(sb), vc = parse_vals(sc), ch = parse_vals(sch);
      switch (kind[0]) {
        case 'H': run_case<TrH>(id.c_str(), seed, strategy, pre, nfree, xadds, bwarm, cwarm, vb, vc, ch); break;
        case 'A': run_case<TrA>(id.c_str(), seed, strategy, pre, nfree, xadds, bwarm, cwarm, vb, vc, ch); break;
        case 'X': run_case<TrX>(id.c_str(), seed, strategy, pre, nfree, xadds, bwarm, cwarm, vb, vc, ch); break;
        default: printf("%s badkind\n", id.c_str());
      }
      fflush(stdout);
      _exit(0);
    }
    int status = 0;
    waitpid(pid, &status, 0);
    if (!(WIFEXITED(status) && WEXITSTATUS(status) == 0)) {
      printf("%s CRASH status=%d\n", id.c_str(), status);
      fflush(stdout);
    }
  }
  return 0;
}
