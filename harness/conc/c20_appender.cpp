// C20 (asynchronous half): the real AsyncFileAppender + LogStreamBuffer under the deterministic scheduler.
// The appender's .cpp files are compiled into this driver with the atomic shim (see checks/c20.py).
// stdin lines: <case-id> <sched-seed> <strategy> <page-size> <queue-capacity> <nfiles> <rotate-every> <program>
//   rotate-every: 0<k<1000 rotate the descriptor every k-th check, k<0 slow file (sleeps -k us per check),
//                 k>1000 the file object reports a descriptor only on every (k-999)-th check and -1 (cannot open)
//                 on the others (1001: every other check, 1999: practically never)
//   program: threads '|', entries ',' ; entry = <file>:<length>   (thread 0 also initializes and closes)
// stdout: <case-id> ok steps=.. | files=<per file: entry tags in stream order> | monitors
#include "shim/prelude.h"
#include "babylon/logging/async_file_appender.h"
#include "babylon/logging/log_entry.h"

#include <sys/mman.h>

#include <cstdio>
#include <cstring>
#include <sstream>

using namespace babylon;

struct RecAlloc : public PageAllocator {
  size_t psize {64};
  std::map<void*, int> live;
  size_t allocated {0}, freed {0};
  bool double_free {false};
  bool slab {false};                 // pages adjacent in memory, ascending (slab / pool allocator)
  char* arena {nullptr}; size_t arena_used {0};
  static constexpr size_t ARENA = 8u << 20;
  bool in_arena(void* p) const { return arena && (char*)p >= arena && (char*)p < arena + ARENA; }
  ~RecAlloc() { free(arena); }
  size_t page_size() const noexcept override { return psize; }
  using PageAllocator::allocate;
  using PageAllocator::deallocate;
  void allocate(void** pages, size_t num) noexcept override {
    for (size_t i = 0; i < num; ++i) {
      void* p;
      if (slab && arena_used + psize <= ARENA) {
        if (!arena) arena = (char*)aligned_alloc(64, ARENA);
        p = arena + arena_used; arena_used += psize;
      } else {
        p = aligned_alloc(64, (psize + 63) / 64 * 64);
      }
      live[p] = 1; allocated++; pages[i] = p;
    }
  }
  void deallocate(void** pages, size_t num) noexcept override {
    for (size_t i = 0; i < num; ++i) {
      auto it = live.find(pages[i]);
      if (it == live.end()) { double_free = true; continue; }
      live.erase(it); freed++; if (!in_arena(pages[i])) free(pages[i]);
    }
  }
};

struct RecFile : public FileObject {
  std::vector<int> fds;      // our dups, in rotation order
  int current {-1};
  int calls {0};
  int rotate_every {0};
  int unavailable {0};
  int newfd() { int fd = memfd_create("c20", 0); fds.push_back(dup(fd)); return fd; }
  std::tuple<int, int> check_and_get_file_descriptor() noexcept override {
    calls++;
    if (rotate_every >= 1000 && calls % (rotate_every - 999) != 0) { unavailable++; return {-1, -1}; }
    if (rotate_every < 0) usleep((useconds_t)(-rotate_every));   // slow file: lets a backlog build up in the queue
    if (current < 0) { current = newfd(); return {current, -1}; }
    if (rotate_every > 0 && rotate_every < 1000 && calls % rotate_every == 0) {
      int old = current; current = newfd(); return {current, old};
    }
    return {current, -1};
  }
  std::string content() {
    std::string s;
    for (int fd : fds) {
      lseek(fd, 0, SEEK_SET);
      char buf[4096]; ssize_t n;
      while ((n = read(fd, buf, sizeof buf)) > 0) s.append(buf, (size_t)n);
    }
    return s;
  }
  ~RecFile() { for (int fd : fds) close(fd); if (current >= 0) close(current); }
};

struct Ent { int file; size_t len; };

static std::string payload(int t, int e, size_t len) {
  char hdr[64];
  snprintf(hdr, sizeof hdr, "<T%dE%dL%zu:", t, e, len);
  std::string s(hdr);
  for (size_t i = 0; i < len; ++i) s.push_back((char)('a' + (t * 7 + e * 3 + i) % 23));
  s.push_back('>');
  return s;
}

int main() {
  char line[8192];
  while (fgets(line, sizeof line, stdin)) {
    char id[64], prog[7900];
    unsigned long long seed; int strategy; unsigned long psize, qcap; int nfiles, rot;
    if (sscanf(line, "%63s %llu %d %lu %lu %d %d %7899s", id, &seed, &strategy, &psize, &qcap, &nfiles, &rot, prog) != 8) continue;
    std::vector<std::vector<Ent>> threads;
    {
      std::stringstream ss(prog); std::string th;
      while (std::getline(ss, th, '|')) {
        std::vector<Ent> es; std::stringstream s2(th); std::string o;
        while (std::getline(s2, o, ',')) if (!o.empty()) { Ent e; sscanf(o.c_str(), "%d:%zu", &e.file, &e.len); es.push_back(e); }
        threads.push_back(es);
      }
    }
    RecAlloc alloc; alloc.psize = psize; alloc.slab = (seed % 2) == 0 && psize % 8 == 0;
    std::vector<std::unique_ptr<RecFile>> files;
    for (int i = 0; i < nfiles; ++i) { files.emplace_back(new RecFile); files.back()->rotate_every = rot; }
    auto* app = new AsyncFileAppender();
    app->set_page_allocator(alloc);
    app->set_queue_capacity(qcap);
    size_t nthreads = threads.size();
    std::vector<int> done(nthreads, 0);
    std::vector<std::function<void()>> bodies;
    for (size_t t = 0; t < nthreads; ++t) {
      bodies.push_back([&, t] {
        if (t == 0) app->initialize();
        LogStreamBuffer buf;
        buf.set_page_allocator(alloc);
        for (size_t e = 0; e < threads[t].size(); ++e) {
          std::string p = payload((int)t, (int)e, threads[t][e].len);
          buf.begin();
          size_t half = p.size() / 2;
          buf.sputn(p.data(), (std::streamsize)half);
          buf.sputn(p.data() + half, (std::streamsize)(p.size() - half));
          app->write(buf.end(), files[threads[t][e].file].get());
        }
        done[t] = 1;
        if (t == 0) {
          for (;;) {
            bool all = true;
            for (size_t i = 0; i < nthreads; ++i) all = all && done[i];
            if (all) break;
            sched_yield();
          }
          app->close();
        }
      });
    }
    verif::Options opt; opt.seed = seed; opt.strategy = strategy; opt.max_steps = 400000;
    verif::Result r = verif::run(bodies, opt);
    // ---- monitors
    bool intact = true, once = true, order = true;
    std::map<std::pair<int, int>, int> seen;
    std::string streams;
    for (int f = 0; f < nfiles; ++f) {
      std::string c = files[f]->content();
      size_t pos = 0; std::map<int, int> last;
      std::string tags;
      while (pos < c.size()) {
        int t, e; size_t len; int consumed = 0;
        if (sscanf(c.c_str() + pos, "<T%dE%dL%zu:%n", &t, &e, &len, &consumed) != 3) { intact = false; break; }
        std::string want = payload(t, e, len);
        if (c.compare(pos, want.size(), want) != 0) { intact = false; break; }
        if (t < 0 || (size_t)t >= nthreads || e < 0 || (size_t)e >= threads[t].size() || threads[t][e].file != f || threads[t][e].len != len) { intact = false; break; }
        if (seen[{t, e}]++) once = false;
        // per-thread order within this file
        if (last.count(t) && last[t] >= e) order = false;
        last[t] = e;
        tags += "T" + std::to_string(t) + "E" + std::to_string(e) + ",";
        pos += want.size();
      }
      streams += tags + (f + 1 < nfiles ? "/" : "");
    }
    size_t total = 0;
    for (auto& th : threads) total += th.size();
    // entries flushed while their file object had no descriptor cannot reach it (only then may one be missing)
    if (seen.size() != total && rot < 1000) once = false;
    bool pages = alloc.live.empty() && !alloc.double_free && alloc.allocated == alloc.freed;
    printf("%s ok steps=%llu pre=%llu lost=%zu | files=%s | intact=%d once=%d order=%d pages=%d\n", id, (unsigned long long)r.steps,
           (unsigned long long)r.preemptions, total - seen.size(), streams.c_str(), intact, once, order, pages);
    fflush(stdout);
    delete app;
  }
  return 0;
}
