// C09 driver: real babylon::Epoch under the deterministic scheduler, with the client protocol the property
// talks about (shared pointer cell + freed flag).  Built with -fno-access-control so that the monitors can
// read Epoch::_version without a scheduling point; nothing of /repo is edited.
// stdin lines:  <case-id> <sched-seed> <strategy> <tl|acc|acc<N>> <owners o,o,..|-> <program>
//   acc<N>: N anonymous accessors are created before the threads start (slot indices start at N; not in the model)
//   program = threads separated by '|', ops separated by ',':
//     C<h>      acc[h] = epoch.create_accessor()            (acc mode, by the owner of handle h, h unbound)
//     L<h>      acc[h].lock()      | epoch.lock()   (tl mode: h ignored, handle = thread)
//     U<h>      acc[h].unlock()    | epoch.unlock() (only when the client's own depth >= 1)
//     X<h>      acc[h].release()
//     G<h>:<t>  move the Accessor object of handle h to thread t (real move assignment)
//     R<h>      p = cell.load()    (only inside the region of h)
//     D<h>      dereference p: read its freed flag (only inside the region in which p was read)
//     B<n>      create n anonymous accessors that are never locked (acc mode; not in the model)
//     K         old = cell.exchange(new Obj); T = epoch.tick(); retire (old, T)
//     Z         m = epoch.low_water_mark(); free every retired (o, T) with T <= m
//   an op whose guard does not hold is skipped ("-").
// stdout: one line per case: <case-id> ok steps=<n> pre=<n> | <per-op results> uaf=<0/1> | <monitor verdicts>
#include "shim/prelude.h"
#include "babylon/concurrent/epoch.h"

#include <cstdio>
#include <cstring>
#include <sstream>

using namespace babylon;

struct Obj { std::verif_atomic<int> freed {0}; int id {-1}; };
struct Op { char k; int h; int t2; std::string res; };
struct Region { uint64_t begin; uint64_t gmin; uint64_t end; };
struct Tick { uint64_t ustamp, rstamp, T; };

static std::string show64(uint64_t v) { return v == UINT64_MAX ? std::string("M") : std::to_string(v); }

int main(int, char**) {
  static char line[1 << 16];
  while (fgets(line, sizeof line, stdin)) {
    char id[64], mode[16], owners_s[4096], prog[60000];
    unsigned long long seed; int strategy;
    if (sscanf(line, "%63s %llu %d %15s %4095s %59999s", id, &seed, &strategy, mode, owners_s, prog) != 6) continue;
    const bool tl = strcmp(mode, "tl") == 0;
    const int prebulk = (!tl && strlen(mode) > 3) ? atoi(mode + 3) : 0;   // "acc<N>": N accessors created before the threads start
    std::vector<std::vector<Op>> threads;
    {
      std::stringstream ss(prog); std::string th;
      while (std::getline(ss, th, '|')) {
        std::vector<Op> ops; std::stringstream s2(th); std::string o;
        while (std::getline(s2, o, ',')) if (!o.empty()) {
          Op op {o[0], 0, 0, ""};
          if (o.size() > 1) { op.h = atoi(o.c_str() + 1); auto c = o.find(':'); if (c != std::string::npos) op.t2 = atoi(o.c_str() + c + 1); }
          ops.push_back(op);
        }
        threads.push_back(ops);
      }
    }
    const int NT = (int)threads.size();
    std::vector<int> owner;
    if (tl) { for (int t = 0; t < NT; ++t) owner.push_back(t); }
    else if (strcmp(owners_s, "-") != 0) { std::stringstream ss(owners_s); std::string o; while (std::getline(ss, o, ',')) owner.push_back(atoi(o.c_str())); }
    int H = (int)owner.size();
    for (auto& th : threads) for (auto& op : th) if (op.k != 'K' && op.k != 'Z' && op.k != 'B' && !tl && op.h >= H) H = op.h + 1;
    while ((int)owner.size() < H) owner.push_back(0);   // handles beyond the owner list belong to thread 0 (as in the model)

    {
      Epoch epoch;
      std::vector<std::vector<Epoch::Accessor>> acc(NT + 1);
      for (auto& v : acc) v.resize(H);
      std::vector<Epoch::Accessor> bulk; bulk.reserve(8192);
      for (int k = 0; k < prebulk; ++k) bulk.push_back(epoch.create_accessor());
      std::vector<long> depth(H, 0);
      std::vector<Obj*> held(H, nullptr);
      std::vector<uint64_t> entered(H, 0);
      std::vector<char> closing(H, 0);
      std::vector<long> region_of(H, -1);
      std::vector<Region> regions;
      std::vector<Tick> ticks;
      std::vector<Obj*> all_objs;
      std::vector<std::vector<std::pair<Obj*, uint64_t>>> retired(NT);
      Obj* first = new Obj; first->id = 0; all_objs.push_back(first);
      std::verif_atomic<Obj*> cell {first};
      int xseq = 0;
      bool uaf = false, holdback = true, stale = true, tick_ok = true, rwl = false;
      auto raw_version = [&] { return static_cast<std::verif_atomic<uint64_t>::B&>(epoch._version).load(std::memory_order_relaxed); };
      auto skip = [&](Op& op) { verif::point(verif::K_USER, 0, nullptr, "skip", 0); op.res = "-"; };

      std::vector<std::function<void()>> bodies;
      for (int t = 0; t < NT; ++t) {
        bodies.push_back([&, t] {
          for (size_t i = 0; i < threads[t].size(); ++i) {
            Op& op = threads[t][i];
            const bool handle_op = !(op.k == 'K' || op.k == 'Z' || op.k == 'B');
            const int h = !handle_op ? 0 : (tl ? t : op.h);
            const bool mine = !handle_op ? true : owner[h] == t;
            const bool valid = tl ? true : (mine && (bool)acc[t][h]);
            switch (op.k) {
              case 'C':
                if (!tl && mine && !acc[t][h]) {
                  acc[t][h] = epoch.create_accessor();
                  depth[h] = 0; held[h] = nullptr; op.res = "C";
                } else skip(op);
                break;
              case 'L':
                if (mine && valid) {
                  if (depth[h] == 0) { regions.push_back(Region {verif::stamp(), raw_version(), 0}); region_of[h] = (long)regions.size() - 1; }
                  if (tl) epoch.lock(); else acc[t][h].lock();
                  depth[h] += 1;
                  if (depth[h] == 1) entered[h] = verif::stamp();
                  op.res = "L";
                } else skip(op);
                break;
              case 'U':
                if (mine && valid && depth[h] >= 1) {
                  if (depth[h] == 1) closing[h] = 1;
                  if (tl) epoch.unlock(); else acc[t][h].unlock();
                  depth[h] -= 1;
                  if (depth[h] == 0) {
                    held[h] = nullptr; entered[h] = 0; closing[h] = 0;
                    if (region_of[h] >= 0) regions[region_of[h]].end = verif::stamp();
                    region_of[h] = -1;
                  }
                  op.res = "U";
                } else skip(op);
                break;
              case 'X':
                if (!tl && mine && valid) {
                  if (depth[h] >= 1) rwl = true;
                  closing[h] = 1;
                  acc[t][h].release();
                  depth[h] = 0; held[h] = nullptr; entered[h] = 0; closing[h] = 0;
                  if (region_of[h] >= 0) regions[region_of[h]].end = verif::stamp();
                  region_of[h] = -1;
                  op.res = "X";
                } else skip(op);
                break;
              case 'G':
                if (!tl && mine) {
                  verif::point(verif::K_USER, 0, nullptr, "give", 0);
                  int to = (op.t2 >= 0 && op.t2 < NT) ? op.t2 : NT;
                  if (to != t) acc[to][h] = std::move(acc[t][h]);
                  owner[h] = op.t2;
                  op.res = "G";
                } else skip(op);
                break;
              case 'R':
                if (mine && valid && depth[h] >= 1) {
                  Obj* p = cell.load(std::memory_order_acquire);
                  held[h] = p;
                  op.res = "r" + std::to_string(p->id);
                } else skip(op);
                break;
              case 'D':
                if (mine && valid && depth[h] >= 1 && held[h] != nullptr) {
                  int f = held[h]->freed.load(std::memory_order_acquire);
                  if (f) uaf = true;
                  op.res = "d" + std::to_string(held[h]->id) + (f ? "!" : "");
                } else skip(op);
                break;
              case 'B':   // bulk: op.h anonymous accessors that are never locked (shifts slot indices)
                if (!tl) { for (int k = 0; k < op.h; ++k) bulk.push_back(epoch.create_accessor()); op.res = "B"; } else skip(op);
                break;
              case 'K': {
                Obj* n = new Obj;
                Obj* old = cell.exchange(n, std::memory_order_acq_rel);
                n->id = ++xseq; all_objs.push_back(n);
                uint64_t us = verif::stamp();
                uint64_t T = epoch.tick();
                for (auto& k : ticks) if (k.T == T) tick_ok = false;
                if (T == 0 || T > raw_version()) tick_ok = false;
                ticks.push_back(Tick {us, verif::stamp(), T});
                retired[t].push_back({old, T});
                op.res = "k" + std::to_string(old->id) + "@" + show64(T);
              } break;
              case 'Z': {
                uint64_t cs = verif::stamp();
                uint64_t m = epoch.low_water_mark();
                // --- monitors, evaluated in the same scheduling step as the last slot load ---
                // (1) a reader whose lock() had returned before an unlink holds the mark below that unlink's tick
                for (int g = 0; g < H; ++g) {
                  if (depth[g] >= 1 && !closing[g] && entered[g] != 0) {
                    for (auto& k : ticks) if (k.ustamp > entered[g] && k.rstamp < cs && m >= k.T) holdback = false;
                  }
                }
                // (2) nothing but regions that overlap the call may hold the mark back
                uint64_t just = UINT64_MAX;
                for (auto& r : regions) if (r.end == 0 || r.end > cs) just = std::min(just, r.gmin);
                if (m < just) stale = false;
                std::string ids;
                std::vector<std::pair<Obj*, uint64_t>> keep;
                for (auto& pr : retired[t]) {
                  if (pr.second <= m) {
                    pr.first->freed.store(1, std::memory_order_release);
                    ids += (ids.empty() ? "" : ".") + std::to_string(pr.first->id);
                  } else keep.push_back(pr);
                }
                retired[t].swap(keep);
                op.res = "z" + show64(m) + ":" + ids;
              } break;
              default: skip(op);
            }
          }
        });
      }
      verif::Options opt; opt.seed = seed; opt.strategy = strategy; opt.max_steps = 400000;
      verif::Result r = verif::run(bodies, opt);
      std::string out;
      for (int t = 0; t < NT; ++t) {
        for (size_t i = 0; i < threads[t].size(); ++i) out += threads[t][i].res + (i + 1 < threads[t].size() ? "," : "");
        out += (t + 1 < NT ? "|" : "");
      }
      printf("%s ok steps=%llu pre=%llu | %s uaf=%d | uaf=%d holdback=%d stale=%d tick=%d rwl=%d\n", id,
             (unsigned long long)r.steps, (unsigned long long)r.preemptions, out.c_str(), uaf ? 1 : 0, uaf ? 0 : 1,
             holdback ? 1 : 0, stale ? 1 : 0, tick_ok ? 1 : 0, rwl ? 1 : 0);
      fflush(stdout);
      // leave every region and release accessors before the epoch goes away
      for (auto o : all_objs) delete o;
    }
  }
  return 0;
}
