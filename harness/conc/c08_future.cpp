// C08 driver: real babylon::Future/Promise/CountDownLatch under the deterministic scheduler.
// stdin lines:  <case-id> <sched-seed> <strategy> <latch-count> <program>     (latch-count 0: plain promise)
//   program = threads separated by '|', ops separated by ',':
//     S        promise.set_value(42)          (exactly one in a program)
//     G        future.get()
//     W<ns>    future.wait_for(ns)            (ns may be negative)
//     F        future.on_finish(cb)
//     T        future.then(cb) then on_finish on the returned future
//     R        future.ready()
//     A<ns>    let virtual time pass
//     D<k>     latch.count_down(k)            (latch programs: no S; the future is the latch's)
// stdout: one line per case:  <case-id> ok steps=<n> pre=<n> | <per-op results in program order> | mon=<verdicts>
#include "shim/prelude.h"
#include "babylon/future.h"

#include <cstdio>
#include <cstring>
#include <sstream>

using namespace babylon;

struct Op { char k; long long arg; std::string res; uint64_t b = 0, e = 0; };

int main(int argc, char** argv) {
  char line[4096];
  while (fgets(line, sizeof line, stdin)) {
    char id[64], prog[3900];
    unsigned long long seed; int strategy; unsigned long latch_count;
    if (sscanf(line, "%63s %llu %d %lu %3899s", id, &seed, &strategy, &latch_count, prog) != 5) continue;
    std::vector<std::vector<Op>> threads;
    {
      std::stringstream ss(prog); std::string th;
      while (std::getline(ss, th, '|')) {
        std::vector<Op> ops; std::stringstream s2(th); std::string o;
        while (std::getline(s2, o, ',')) if (!o.empty()) ops.push_back(Op{o[0], o.size() > 1 ? atoll(o.c_str() + 1) : 0, ""});
        threads.push_back(ops);
      }
    }
    auto* promise = new Promise<size_t>();
    CountDownLatch<>* latch = latch_count ? new CountDownLatch<>(latch_count) : nullptr;
    Future<size_t> future = latch ? latch->get_future() : promise->get_future();
    const size_t VAL = latch ? 0 : 42;
    size_t downs = 0, downs_done = 0; std::string ran;
    int cb_total = 0; int cb_runs[64][64]; memset(cb_runs, 0, sizeof cb_runs);
    bool cb_bad_value = false, cb_before_set = false;
    uint64_t set_begin = 0, set_end = 0; bool set_started = false;
    std::vector<std::function<void()>> bodies;
    for (size_t t = 0; t < threads.size(); ++t) {
      bodies.push_back([&, t] {
        Future<size_t> f = future;  // own copy
        for (size_t i = 0; i < threads[t].size(); ++i) {
          Op& op = threads[t][i];
          op.b = verif::stamp();
          switch (op.k) {
            case 'S': set_started = true; set_begin = op.b; promise->set_value(42); op.res = "S"; break;
            case 'G': { size_t v = f.get(); op.res = v == VAL ? "G1" : "G0"; } break;
            case 'D': {
              downs += (size_t)op.arg;
              if (downs >= latch_count) { set_started = true; if (!set_begin) set_begin = op.b; }
              latch->count_down((size_t)op.arg); op.res = "D";
              downs_done += (size_t)op.arg;
              if (downs_done >= latch_count && !set_end) set_end = verif::stamp();
            } break;
            case 'W': {
              uint64_t t0 = verif::now_ns();
              bool r = f.wait_for(std::chrono::nanoseconds(op.arg));
              uint64_t t1 = verif::now_ns();
              bool elapsed_ok = r || (op.arg <= 0) || (t1 - t0 >= (uint64_t)op.arg);
              bool ready_ok = !r || f.ready();
              op.res = std::string("W") + (r ? "1" : "0") + (elapsed_ok ? "" : "!early") + (ready_ok ? "" : "!notready");
            } break;
            case 'F':
              f.on_finish([&, t, i](size_t& v) { cb_runs[t][i]++; cb_total++; ran += (ran.empty() ? "" : ",") + std::to_string(t) + "." + std::to_string(i); if (v != VAL) cb_bad_value = true; if (!set_started) cb_before_set = true; });
              f = future; op.res = "F"; break;
            case 'T': {
              auto f2 = f.then([&, t, i](size_t& v) { cb_runs[t][i]++; if (v != VAL) cb_bad_value = true; if (!set_started) cb_before_set = true; return v + 1; });
              f = future;
              f2.on_finish([&, t, i](size_t& v) { cb_runs[t][i] += 100; if (v != VAL + 1) cb_bad_value = true; });
              op.res = "T";
            } break;
            case 'R': op.res = std::string("R") + (f.ready() ? "1" : "0"); break;
            case 'A': verif::advance_time((uint64_t)op.arg); op.res = "A"; break;
          }
          op.e = verif::stamp();
          if (op.k == 'S') set_end = op.e;
        }
      });
    }
    if ((seed % 4) == 1 && strategy != 1) {
      // the calendar clock is stepped forwards and backwards while the program runs (NTP step, date -s): timed waits
      // must measure elapsed time on a monotonic clock, so this must not change any outcome
      bodies.push_back([&] {
        const int64_t S = 1000000000ll;
        for (int k = 0; k < 3; ++k) sched_yield();
        verif::step_wall_clock(+600 * S);
        for (int k = 0; k < 4; ++k) sched_yield();
        verif::step_wall_clock(-1300 * S);
        for (int k = 0; k < 4; ++k) sched_yield();
        verif::step_wall_clock(+700 * S);
      });
    }
    verif::Options opt; opt.seed = seed; opt.strategy = strategy; opt.max_steps = 200000;
    opt.spurious_futex = (seed % 3) == 0 && strategy != 1;   // futex_wait may return EINTR / spuriously: waiters must re-check
    verif::Result r = verif::run(bodies, opt);
    std::string out, mon;
    bool once = true, get_ok = true, ready_after_set = true, wait_after_set = true;
    for (size_t t = 0; t < threads.size(); ++t) {
      for (size_t i = 0; i < threads[t].size(); ++i) {
        Op& op = threads[t][i];
        out += op.res + (i + 1 < threads[t].size() ? "," : "");
        if (op.k == 'F' && cb_runs[t][i] != 1) once = false;
        if (op.k == 'T' && cb_runs[t][i] != 101) once = false;
        if (op.k == 'G' && op.res != "G1") get_ok = false;
        if (set_end && op.b > set_end) {   // started after set_value returned
          if (op.k == 'R' && op.res != "R1") ready_after_set = false;
          if (op.k == 'W' && op.res.substr(0, 2) != "W1") wait_after_set = false;
        }
        if (op.k == 'R' && op.res == "R1" && (!set_started || op.e < set_begin)) ready_after_set = false;
        if (latch && (op.k == 'G' || (op.k == 'W' && op.res.substr(0, 2) == "W1")) && (!set_started || op.e < set_begin)) ready_after_set = false;
      }
      out += (t + 1 < threads.size() ? "|" : "");
    }
    bool wait_sound = out.find('!') == std::string::npos;
    out += " ran=" + ran;
    printf("%s ok steps=%llu pre=%llu | %s | once=%d value=%d notbefore=%d get=%d ready=%d waitafter=%d waitsound=%d\n", id,
           (unsigned long long)r.steps, (unsigned long long)r.preemptions, out.c_str(), once, !cb_bad_value,
           !cb_before_set, get_ok, ready_after_set, wait_after_set, wait_sound);
    fflush(stdout);
    delete promise; delete latch;
  }
  return 0;
}
