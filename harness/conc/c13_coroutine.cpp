// C13 driver: real babylon coroutines (Task / Future awaitable / Cancellable / coroutine::Futex over the real
// DepositBox) under the deterministic scheduler.  coroutine/futex.cpp is compiled into this translation unit (through
// the atomic shim) with ONE extra scheduling point: after every `finish_released(...)` of futex.cpp (a plain-memory
// window of the real code - `node->next` is read after it in wake_all - that the shim, which only pre-empts at
// atomic operations, would otherwise never open).  No edit of /repo.
//
// stdin lines:  <case-id> <sched-seed> <strategy> <workers> <value0> <coroutines> <threads> [<choices>]
//   coroutines  ';'-separated  "<executor>:<op>,<op>,..."   ("-" = none).  Every coroutine is submitted to its executor
//               before the run starts; <workers> scheduler threads serve all executors (each function runs inside
//               a RunnerScope of the executor it was handed to), so coroutines of one executor may run in parallel.
//     w<x>[t]     co_await futex.wait(x)            t: with on_suspend(callback storing the cancellation token)
//     u<x>[t]     the same on a second futex (both futexes draw their nodes from the one DepositBox)
//     f<k> F<k>   co_await future k (shared copy / moved)
//     a<e>.<k>    co_await child task bound to executor e ('i' = inherit) whose body awaits future k ('-' = nothing)
//     c<e>.<k>    co_await Cancellable<Task<int>>(same child).on_suspend(callback storing the token)
//   threads     '|'-separated client threads, ops ','-separated ("-" = none):
//     W1 WA       futex.wake_one() / futex.wake_all()          X1 XA: the same on the second futex
//     K<i>.<j>    cancel the token of op j of coroutine i   (result '-' when the token is not published yet)
//     V<x>        futex.atomic_value().store(x)
//     S<k>        promise k .set_value(100 + k)
//     Y           sched_yield
//     Q<n>        wait until n cancellation tokens have been published (n waiters with 't' are queued)
//   after all client threads finished and the executors are idle a closer thread records the progress of every
//   coroutine, then repeats wake_all() until nothing more is resumed (a coroutine unfinished after that is stranded).
// stdout: one line per case
//   <case-id> ok steps=<n> pre=<n> | <client results> / <coroutine progress before the closer> | <monitors> slots=<end()>
// Monitors (1 = holds):
//   once      every co_await returned at most once; no coroutine resumed while it was running; no token cancelled twice
//   acct      per futex: resumed suspensions of waits on it == sum of its wake_one/wake_all results + successful cancels
//             of its waits (a wake returns n iff it resumed n waiters of THAT futex; nobody is resumed by a futex it does
//             not wait on)
//   exec      every continuation after a co_await runs inside the executor the coroutine is bound to
//   value     future / child task / cancellable results are the awaited values; optional empty iff a cancel succeeded
//   nosusp    a wait with a non-matching value continues without suspending (and publishes no token); matching suspends
//   w1        wake_one returned 0 only if no waiter that was queued (and untaken) when it began is still queued+untaken
//   wall      after wake_all returns every waiter queued when it began is unlinked and taken
//   leak      deposit-box slots in use (both boxes) at the end == at the start of the case
//   stranded  every coroutine finished after the closer's wake_all rounds
//   listwf    when nothing is in flight and at the end both waiter lists are well-formed doubly linked lists (first->prev ==
//             head, node->prev == predecessor, no cycle, node->futex == this futex); empty at the end
//   lostwake  when nothing is in flight and the last store to the futex word precedes the start of some wake_all(), no
//             coroutine is suspended in a wait whose expected value differs from the word (compare + enqueue atomic)
//   cbafter   await_suspend never fetches the on_suspend callback from an awaitable that the continuation has already
//             destroyed (it must not touch the awaitable once add_awaiter published the node); only the variant
//             driver built with -DC13_UNLOCK_POINT (lock_guard of futex.cpp yields after unlocking, freed memory is
//             poisoned) can open and see that window
#include "shim/prelude.h"
#include "babylon/coroutine/cancelable.h"
#include "babylon/coroutine/futex.h"
#include "babylon/executor.h"

static inline void c13_after_finish() { verif::point(verif::K_USER, 0, nullptr, "after_finish_released", 0); }
#ifdef C13_UNLOCK_POINT
// variant driver (built with ASan): the lock_guard of futex.cpp additionally yields right after it released the mutex,
// which opens the window between add_awaiter() publishing the node and the rest of await_suspend
namespace std {
template <typename M>
struct c13_lock_guard {
  explicit c13_lock_guard(M& m) : _m(m) { _m.lock(); }
  ~c13_lock_guard() { _m.unlock(); verif::point(verif::K_USER, 0, nullptr, "after_unlock", 0); }
  M& _m;
};
}
#define lock_guard c13_lock_guard
#endif
#define finish_released(x) finish_released(x), c13_after_finish()
#include "babylon/coroutine/futex.cpp"
#undef finish_released
#ifdef C13_UNLOCK_POINT
#undef lock_guard
#endif

#include <cstdio>
#include <cstring>
#include <deque>
#include <sstream>
#include <malloc.h>

#ifdef C13_UNLOCK_POINT
// variant driver: freed memory is filled with 0xEE (see OnSuspend)
void operator delete(void* p) noexcept { if (p) { memset(p, 0xEE, malloc_usable_size(p)); free(p); } }
void operator delete(void* p, size_t) noexcept { if (p) { memset(p, 0xEE, malloc_usable_size(p)); free(p); } }
#endif


using namespace babylon;
using babylon::coroutine::BasicCancellable;
using babylon::coroutine::Cancellable;
using CoFutex = babylon::coroutine::Futex;
using babylon::coroutine::Task;

namespace {

struct World;
std::string g_case_id;
thread_local uint64_t g_fn = 0;        // id of the executor function this thread is running (0 = none)

struct PoolExec : public Executor {
  World* w = nullptr; int idx = 0;
  std::deque<MoveOnlyFunction<void(void)>*> q;
  int invoke(MoveOnlyFunction<void(void)>&& function) noexcept override;
};

struct COp { char k; int x = 0; bool tok = false; int e = -1; int fut = -1; int fx = 0;   // fx: which futex ('w' = 0, 'u' = 1)
  // ghost
  int returned = 0; bool on_exec = true; bool suspended = false; bool token_set = false; int cancels_true = 0;
  int value = 0; bool has_value = false; bool bad = false;
  CoFutex::Cancellation ftok; BasicCancellable::Cancellation ctok; };
struct Coro { int exec = 0; std::vector<COp> ops; size_t pos = 0; bool done = false; bool running = false; };
struct TOp { char k; int a = 0, b = 0; std::string res; uint64_t bs = 0, es = 0; };   // bs/es: begin / end stamps

using NodeBox = DepositBox<CoFutex::Node>;
using CanBox = DepositBox<BasicCancellable*>;

struct World {
  CoFutex futex[2];     // both draw their nodes from the one DepositBox<Futex::Node>
  std::vector<PoolExec*> execs;
  std::vector<Coro> coros;
  std::vector<std::vector<TOp>> threads;
  std::vector<::babylon::Promise<int>*> promises; std::vector<Future<int>> futures;
  long idle_ns = 1000;   // idle workers poll every 20 scheduler steps (priority strategy: a shorter period starves the rest), else every 2
  int queued = 0, busy = 0; size_t clients_done = 0; bool stop = false; uint64_t fn_seq = 0;
  // monitors
  bool once = true, exec_ok = true, value_ok = true, nosusp = true, w1 = true, wall = true, cbafter = true, lostwake = true, listwf = true;
  long wakes[2] = {0, 0}, fcancels[2] = {0, 0}, closer_wakes[2] = {0, 0}; int tokens_published = 0;
  std::string detail;
  ptrdiff_t slot_delta = 0;

  void note(const std::string& s) { if (detail.size() < 300) detail += (detail.empty() ? "" : ";") + s; }

  uint32_t slot_version(CoFutex::Node* n) {
    auto* sl = reinterpret_cast<NodeBox::Slot*>(reinterpret_cast<char*>(n) - slot_delta);
    return sl->version.B::load(std::memory_order_relaxed);
  }
  // waiters currently linked and not taken: (node, id)
  std::vector<std::pair<CoFutex::Node*, uint64_t>> healthy(int fx) {
    std::vector<std::pair<CoFutex::Node*, uint64_t>> v;
    int guard = 0;
    for (CoFutex::Node* n = futex[fx]._awaiter_head.next; n != nullptr && guard < 1000; n = n->next, ++guard)
      if (slot_version(n) == n->id.version) v.push_back({n, n->id.version_and_value});
    return v;
  }
  std::vector<std::pair<CoFutex::Node*, uint64_t>> linked(int fx) {
    std::vector<std::pair<CoFutex::Node*, uint64_t>> v;
    int guard = 0;
    for (CoFutex::Node* n = futex[fx]._awaiter_head.next; n != nullptr && guard < 1000; n = n->next, ++guard)
      v.push_back({n, n->id.version_and_value});
    return v;
  }
  // the waiter list of futex fx is a well-formed doubly linked list of waiters of THAT futex: first->prev == head,
  // every other node's prev is its predecessor, no cycle, node->futex is this futex.  Called when nothing is in flight.
  void check_list(int fx, const char* when) {
    CoFutex::BasicNode* prev = &futex[fx]._awaiter_head;
    int guard = 0;
    for (CoFutex::Node* n = futex[fx]._awaiter_head.next; n != nullptr; n = n->next) {
      if (++guard > 1000) { listwf = false; note(std::string("list-cycle-") + when + "-f" + std::to_string(fx)); return; }
      if (n->prev != prev) { listwf = false; note(std::string("node-prev-wrong-") + when + "-f" + std::to_string(fx)); }
      if (n->futex != &futex[fx]) { listwf = false; note(std::string("node-of-other-futex-") + when + "-f" + std::to_string(fx)); }
      prev = n;
    }
  }
};

int PoolExec::invoke(MoveOnlyFunction<void(void)>&& function) noexcept {
  verif::point(verif::K_USER, 0, this, "invoke", 0);
  q.push_back(new MoveOnlyFunction<void(void)>(std::move(function)));
  ++w->queued;
  return 0;
}

// on_suspend callback of a futex wait.  In the variant driver freed memory is filled with 0xEE, so a callback object
// that await_suspend fetches from an awaitable the continuation has already destroyed fails the magic test: reported
// at once (cbafter=0) and the process leaves before anything else is touched (the driver is restarted on the rest).
constexpr uint64_t C13_MAGIC = 0xC13C13C13C13ULL;
struct OnSuspend {
  uint64_t magic; World* w; int i; size_t j;
  void operator()(CoFutex::Cancellation t) const {
    if (magic != (C13_MAGIC ^ (uint64_t)(i * 131 + (int)j))) {
      printf("%s ok steps=0 pre=0 | - / - | once=1 acct=1 exec=1 value=1 nosusp=1 w1=1 wall=1 leak=1 stranded=1 cbafter=0 lostwake=1 listwf=1 slots=0 "
             "detail=on_suspend-callback-read-from-destroyed-awaitable\n", g_case_id.c_str());
      fflush(stdout);
      _exit(0);
    }
    COp& o = w->coros[(size_t)i].ops[j]; o.ftok = t; o.token_set = true; ++w->tokens_published;
  }
};

Task<int> child(World* w, int fut, int ret) {
  if (fut >= 0) {
    int v = co_await Future<int>(w->futures[(size_t)fut]);
    co_return ret + v;
  }
  co_return ret;
}

Task<> body(World* w, int i) {
  Coro& c = w->coros[(size_t)i];
  c.running = true;
  for (size_t j = 0; j < c.ops.size(); ++j) {
    COp& op = c.ops[j];
    c.pos = j;
    uint64_t fn_before = g_fn;
    c.running = false;
    switch (op.k) {
      case 'w':
        if (op.tok) {
          co_await w->futex[op.fx].wait((uint64_t)op.x).on_suspend(OnSuspend{C13_MAGIC ^ (uint64_t)(i * 131 + (int)j), w, i, j});
        } else {
          co_await w->futex[op.fx].wait((uint64_t)op.x);
        }
        break;
      case 'f': { Future<int> f = w->futures[(size_t)op.fut]; op.value = co_await f; op.has_value = true; } break;
      case 'F': { Future<int> f = w->futures[(size_t)op.fut]; op.value = co_await std::move(f); op.has_value = true; } break;
      case 'a': {
        auto t = child(w, op.fut, 1000 * (i + 1) + (int)j);
        if (op.e >= 0) t.set_executor(*w->execs[(size_t)op.e]);
        op.value = co_await std::move(t); op.has_value = true;
      } break;
      case 'c': {
        auto t = child(w, op.fut, 1000 * (i + 1) + (int)j);
        if (op.e >= 0) t.set_executor(*w->execs[(size_t)op.e]);
        auto r = co_await Cancellable<Task<int>>(std::move(t)).on_suspend([w, i, j](BasicCancellable::Cancellation t) {
          COp& o = w->coros[(size_t)i].ops[j]; o.ctok = t; o.token_set = true; ++w->tokens_published; });
        op.has_value = (bool)r; if (r) op.value = *r;
      } break;
    }
    // ---- continuation
    if (c.running) { w->once = false; w->note("resumed-while-running c" + std::to_string(i)); }
    c.running = true;
    if (c.pos != j) { w->once = false; w->note("continuation-of-wrong-await c" + std::to_string(i)); }
    if (++op.returned != 1) { w->once = false; w->note("await-returned-twice c" + std::to_string(i) + "." + std::to_string(j)); }
    op.suspended = g_fn != fn_before;
    if (!w->execs[(size_t)c.exec]->is_running_in()) { op.on_exec = false; w->exec_ok = false; w->note("off-executor c" + std::to_string(i) + "." + std::to_string(j)); }
  }
  c.pos = c.ops.size();
  c.done = true;
  c.running = false;
  co_return;
}

void worker(World* w, int me) {
  size_t rot = (size_t)me;
  while (!w->stop) {
    PoolExec* pick = nullptr;
    for (size_t k = 0; k < w->execs.size(); ++k) {
      PoolExec* e = w->execs[(rot + k) % w->execs.size()];
      if (!e->q.empty()) { pick = e; break; }
    }
    if (!pick) { struct timespec ts = {0, w->idle_ns}; nanosleep(&ts, nullptr); continue; }
    ++rot;
    auto* fn = pick->q.front(); pick->q.pop_front(); --w->queued; ++w->busy;
    uint64_t saved = g_fn; g_fn = ++w->fn_seq;
    {
      BasicExecutor::RunnerScope scope {*pick};
      (*fn)();
    }
    g_fn = saved;
    delete fn;
    --w->busy;
  }
}

template <typename B>
long in_use(B& box) {
  long n = 0;
  box._slot_id_allocator.for_each([&](uint32_t b, uint32_t e) { n += (long)(e - b); });
  return n;
}

void quiesce(World* w) { while (w->queued > 0 || w->busy > 0) usleep(1); }

std::vector<std::string> split(const std::string& s, char sep) {
  std::vector<std::string> v; std::stringstream ss(s); std::string x;
  while (std::getline(ss, x, sep)) if (!x.empty()) v.push_back(x);
  return v;
}

}  // namespace

int main(int argc, char** argv) {
  static char line[65536];
  ptrdiff_t delta;
  {
    auto* s = new NodeBox::Slot(); s->object.emplace();
    delta = reinterpret_cast<char*>(&*s->object) - reinterpret_cast<char*>(s);
    delete s;
  }
  // warm-up case (not reported): first-use paths of the deposit boxes / allocators / vectors take a different number
  // of atomic operations; running one fixed program first makes a case replayed alone see the same schedule as in a batch
  bool warm = true;
  while (warm || fgets(line, sizeof line, stdin)) {
    if (warm) strcpy(line, "warmup 1 3 2 1 0:w1t,w1;0:w1t;1:w1t;1:w1;0:w1t;1:w1,w1t;0:c1.0;1:f1 Q2,K0.0,W1,S0|WA,S1,WA\n");
    bool warming = warm; warm = false;
    auto f = split(line, ' ');
    for (auto& x : f) while (!x.empty() && (x.back() == '\n' || x.back() == '\r')) x.pop_back();
    if (f.size() < 7) continue;
    std::string id = f[0]; g_case_id = id;
    unsigned long long seed = strtoull(f[1].c_str(), nullptr, 10);
    int strategy = atoi(f[2].c_str()); int nworkers = atoi(f[3].c_str()); int value0 = atoi(f[4].c_str());
    World* w = new World(); w->slot_delta = delta;
    w->idle_ns = strategy == 1 ? 1000 : 100;
    w->futex[0].value() = (uint64_t)value0; w->futex[1].value() = (uint64_t)value0;
    int max_exec = 0, max_fut = -1;
    if (f[5] != "-") for (auto& cs : split(f[5], ';')) {
      Coro c; size_t colon = cs.find(':'); c.exec = atoi(cs.substr(0, colon).c_str());
      max_exec = std::max(max_exec, c.exec);
      for (auto& o : split(cs.substr(colon + 1), ',')) {
        COp op; op.k = o[0];
        if (op.k == 'w' || op.k == 'u') { op.fx = op.k == 'u'; op.k = 'w'; op.x = atoi(o.c_str() + 1); op.tok = o.back() == 't'; }
        else if (op.k == 'f' || op.k == 'F') { op.fut = atoi(o.c_str() + 1); }
        else { size_t dot = o.find('.'); std::string e = o.substr(1, dot - 1), k = o.substr(dot + 1);
               op.e = e == "i" ? -1 : atoi(e.c_str()); op.fut = k == "-" ? -1 : atoi(k.c_str());
               max_exec = std::max(max_exec, op.e); }
        max_fut = std::max(max_fut, op.fut);
        c.ops.push_back(op);
      }
      w->coros.push_back(c);
    }
    if (f[6] != "-") for (auto& ts : split(f[6], '|')) {
      std::vector<TOp> ops;
      for (auto& o : split(ts, ',')) {
        TOp op; op.k = o[0];
        if (o == "-") continue;
        if (op.k == 'W' || op.k == 'X') { op.b = op.k == 'X'; op.k = 'W'; op.a = o[1] == 'A' ? 1 : 0; }   // b: futex index
        else if (op.k == 'K') { size_t dot = o.find('.'); op.a = atoi(o.substr(1, dot - 1).c_str()); op.b = atoi(o.substr(dot + 1).c_str()); }
        else if (op.k == 'V' || op.k == 'S' || op.k == 'Q') { op.a = atoi(o.c_str() + 1); if (op.k == 'S') max_fut = std::max(max_fut, op.a); }
        ops.push_back(op);
      }
      w->threads.push_back(ops);
    }
    for (int e = 0; e <= max_exec; ++e) { auto* x = new PoolExec(); x->w = w; x->idx = e; w->execs.push_back(x); }
    for (int k = 0; k <= max_fut; ++k) { auto* p = new ::babylon::Promise<int>(); w->promises.push_back(p); w->futures.push_back(p->get_future()); }
    verif::Options opt; opt.seed = seed; opt.strategy = strategy; opt.max_steps = 100000;
    if (f.size() > 7 && f[7] != "-") for (auto& c : split(f[7], ',')) opt.choices.push_back(atoi(c.c_str()));

    long use0_node = 0, use0_can = 0, use1_node = 0, use1_can = 0; uint32_t slots_end = 0;
    std::string progress; bool stranded_ok = true;
    std::vector<std::function<void()>> bodies;
    size_t nclients = w->threads.size();
    for (size_t t = 0; t < nclients; ++t) {
      bodies.push_back([w, t] {
        for (auto& op : w->threads[t]) {
          switch (op.k) {
            case 'W':
              if (op.a == 0) {
                auto before = w->healthy(op.b);
                int r = w->futex[op.b].wake_one();
                if (r == 0) {
                  auto after = w->healthy(op.b);
                  for (auto& b : before) for (auto& a : after) if (a == b) { w->w1 = false; w->note("wake_one=0-with-healthy-waiter"); }
                }
                w->wakes[op.b] += r; op.res = std::to_string(r);
              } else {
                op.bs = verif::stamp();
                auto before = w->linked(op.b);
                int r = w->futex[op.b].wake_all();
                auto after = w->linked(op.b);
                for (auto& b : before) {
                  for (auto& a : after) if (a == b) { w->wall = false; w->note("wake_all-left-waiter-linked"); }
                  if (b.first->id.version_and_value == b.second && w->slot_version(b.first) == b.first->id.version) { w->wall = false; w->note("wake_all-left-waiter-untaken"); }
                }
                w->wakes[op.b] += r; op.res = std::to_string(r);
              }
              break;
            case 'K': {
              COp* o = (size_t)op.a < w->coros.size() && (size_t)op.b < w->coros[(size_t)op.a].ops.size() ? &w->coros[(size_t)op.a].ops[(size_t)op.b] : nullptr;
              if (!o || !o->token_set) { op.res = "-"; break; }
              bool r = o->k == 'w' ? o->ftok() : o->ctok();
              if (r) { if (++o->cancels_true > 1) { w->once = false; w->note("token-cancelled-twice"); } if (o->k == 'w') ++w->fcancels[o->fx]; }
              op.res = r ? "1" : "0";
            } break;
            case 'V': w->futex[0].atomic_value().store((uint64_t)op.a, std::memory_order_release); op.es = verif::stamp(); op.res = "v"; break;
            case 'S': w->promises[(size_t)op.a]->set_value(100 + op.a); op.res = "s"; break;
            case 'Y': sched_yield(); op.res = "y"; break;
            case 'Q': while (w->tokens_published < op.a) usleep(1); op.res = "q"; break;
          }
        }
        ++w->clients_done;
      });
    }
    for (int k = 0; k < nworkers; ++k) bodies.push_back([w, k] { worker(w, k); });
    bodies.push_back([&, w] {   // closer
      while (w->clients_done < nclients) usleep(1);
      quiesce(w);
      for (size_t i = 0; i < w->coros.size(); ++i)
        progress += (i ? "," : "") + std::to_string(w->coros[i].pos) + (w->coros[i].done ? "d" : "s");
      {
        // lost wakeup: nothing is in flight, the word was last stored before some wake_all() began, and a coroutine is
        // suspended in a wait whose expected value differs from the word.  Had it been queued before that wake_all's
        // critical section it would have been taken; queued after it, it saw the new word and must not have suspended.
        uint64_t last_store = 0, last_wa = 0;
        for (auto& th : w->threads) for (auto& t : th) {
          if (t.k == 'V') last_store = std::max(last_store, t.es);
          if (t.k == 'W' && t.a == 1 && t.b == 0) last_wa = std::max(last_wa, t.bs);
        }
        uint64_t word = w->futex[0].value();
        if (last_wa > last_store)
          for (size_t i = 0; i < w->coros.size(); ++i) {
            Coro& c = w->coros[i];
            if (!c.done && c.pos < c.ops.size() && c.ops[c.pos].k == 'w' && c.ops[c.pos].fx == 0 && (uint64_t)c.ops[c.pos].x != word) {
              w->lostwake = false;
              w->note("suspended-on-non-matching-word-after-wake_all c" + std::to_string(i) + "." + std::to_string(c.pos));
            }
          }
      }
      w->check_list(0, "quiescent"); w->check_list(1, "quiescent");
      size_t rounds = 2;
      for (auto& c : w->coros) rounds += c.ops.size();
      for (size_t r = 0; r < rounds; ++r) {
        bool all = true; for (auto& c : w->coros) all = all && c.done;
        if (all) break;
        int n = 0;
        for (int fx = 0; fx < 2; ++fx) { int k = w->futex[fx].wake_all(); w->closer_wakes[fx] += k; n += k; }
        quiesce(w);
        if (n == 0) break;
      }
      for (auto& c : w->coros) stranded_ok = stranded_ok && c.done;
      w->check_list(0, "end"); w->check_list(1, "end");
      if (stranded_ok) for (int fx = 0; fx < 2; ++fx) if (w->futex[fx]._awaiter_head.next != nullptr) { w->listwf = false; w->note("list-not-empty-at-end-f" + std::to_string(fx)); }
      use1_node = in_use(NodeBox::instance()); use1_can = in_use(CanBox::instance());
      slots_end = NodeBox::instance()._slot_id_allocator.end();
      w->stop = true;
    });
    // start state: every coroutine handed to its executor (outside the scheduler: no interleaving yet)
    use0_node = in_use(NodeBox::instance()); use0_can = in_use(CanBox::instance());
    for (size_t i = 0; i < w->coros.size(); ++i) w->execs[(size_t)w->coros[i].exec]->submit(body(w, (int)i));
    verif::Result r = verif::run(bodies, opt);

    // ---- post-run monitors
    long resumed_susp[2] = {0, 0};
    for (size_t i = 0; i < w->coros.size(); ++i) for (size_t j = 0; j < w->coros[i].ops.size(); ++j) {
      COp& o = w->coros[i].ops[j];
      std::string at = "c" + std::to_string(i) + "." + std::to_string(j);
      if (o.returned > 1) w->once = false;
      if (o.k == 'w' && o.returned) {
        if (o.suspended) ++resumed_susp[o.fx];
        bool may_change = false;
        for (auto& th : w->threads) for (auto& t : th) if (t.k == 'V') may_change = true;
        if (!may_change) {
          if (o.x != value0 && (o.suspended || o.token_set)) { w->nosusp = false; w->note("non-matching-wait-suspended " + at); }
          if (o.x == value0 && !o.suspended) { w->nosusp = false; w->note("matching-wait-did-not-suspend " + at); }
        }
      }
      if (o.returned && (o.k == 'f' || o.k == 'F') && o.value != 100 + o.fut) { w->value_ok = false; w->note("future-value " + at); }
      int expect = 1000 * ((int)i + 1) + (int)j + (o.fut >= 0 ? 100 + o.fut : 0);
      if (o.returned && o.k == 'a' && o.value != expect) { w->value_ok = false; w->note("task-value " + at); }
      if (o.returned && o.k == 'c') {
        if (o.has_value == (o.cancels_true > 0)) { w->value_ok = false; w->note("optional-vs-cancel " + at); }
        if (o.has_value && o.value != expect) { w->value_ok = false; w->note("cancellable-value " + at); }
      }
      if (!o.returned && o.cancels_true > 0 && stranded_ok) { w->value_ok = false; w->note("cancelled-but-never-resumed " + at); }
    }
    bool acct = true;   // per futex: a wake of futex f resumes waiters of f only
    for (int fx = 0; fx < 2; ++fx)
      if (resumed_susp[fx] != w->wakes[fx] + w->fcancels[fx] + w->closer_wakes[fx]) {
        acct = false;
        w->note("f" + std::to_string(fx) + ":resumed=" + std::to_string(resumed_susp[fx]) + " wakes=" + std::to_string(w->wakes[fx]) + " cancels=" + std::to_string(w->fcancels[fx]) + " closer=" + std::to_string(w->closer_wakes[fx]));
      }
    bool leak_ok = use0_node == use1_node && use0_can == use1_can;
    if (!leak_ok) w->note("slots-in-use node " + std::to_string(use0_node) + "->" + std::to_string(use1_node) + " cancellable " + std::to_string(use0_can) + "->" + std::to_string(use1_can));
    std::string out;
    for (size_t t = 0; t < w->threads.size(); ++t) {
      for (size_t k = 0; k < w->threads[t].size(); ++k) out += (k ? "," : "") + w->threads[t][k].res;
      if (t + 1 < w->threads.size()) out += "|";
    }
    if (out.empty()) out = "-";
    for (auto& ch : w->detail) if (ch == ' ' || ch == '|') ch = '_';
    if (!warming) printf("%s ok steps=%llu pre=%llu | %s / %s | once=%d acct=%d exec=%d value=%d nosusp=%d w1=%d wall=%d leak=%d stranded=%d cbafter=%d lostwake=%d listwf=%d slots=%u detail=%s\n",
           id.c_str(), (unsigned long long)r.steps, (unsigned long long)r.preemptions, out.c_str(), progress.empty() ? "-" : progress.c_str(),
           w->once, acct, w->exec_ok, w->value_ok, w->nosusp, w->w1, w->wall, leak_ok, stranded_ok, w->cbafter, w->lostwake, w->listwf, slots_end,
           w->detail.empty() ? "-" : w->detail.c_str());
    fflush(stdout);
    // the world is leaked on purpose when something is stranded (frames still reference it)
    if (stranded_ok) {
      for (auto* e : w->execs) delete e;
      for (auto* p : w->promises) delete p;
      delete w;
    }
  }
  return 0;
}
