// C04 driver: real babylon::ConcurrentVector (+ its RetireList) under the deterministic scheduler with virtual time.
// stdin lines:  <case-id> <sched-seed> <strategy> <block> <program> <choices|->
//   block   = d<hint>  ConcurrentVector<Elem, 0>(hint)     (dynamic block size, hint rounded up to 2^n)
//             s<size>  ConcurrentVector<Elem, size>         (static block size 1,2,4,8)
//   program = threads separated by '|', ops separated by ',':
//     E<i>      &vector.ensure(i)                R<n>      vector.reserve(n)
//     I<i>      &vector[i] (skipped when i >= size())      Z   vector.size()
//     S         snap = vector.snapshot()         G<i>      &snap[i]   (thread-local snapshot)
//     F<b>-<e>  vector.for_each(b, e, cb)        L<b>-<e>  vector.fill_n(b, e-b, v)     P<b>-<e>  vector.copy_n(src, e-b, b)
//     C         vector.gc()                      A<sec>    let virtual time pass
//     W<+-sec>  the calendar clocks (CLOCK_REALTIME*, CLOCK_TAI) are stepped by +-sec (NTP step, date -s, VM resume);
//               elapsed (monotonic) virtual time is unaffected; the accumulated offset is undone at the end of the case
//   choices = comma separated replay list for strategy 2
//   optional 7th field <setup> ('-' = none): whole-object operations executed sequentially BEFORE the threads start, on
//   vector objects in slots 0..3 (all of the case's block type), ops separated by ',':
//     D<v>      slot v = new Vec(hint)                  element constructor = T()  (constructor id 1)
//     N<v>.<k>  slot v = new Vec(hint, functor k)       user-supplied constructor functor (id k >= 2)
//     G<v>.<i>  slot v ->ensure(i)   (address recorded: must survive every later move / swap)
//     M<d>.<s>  slot d = new Vec(std::move(*slot s))    A<d>.<s>  *slot d = std::move(*slot s)    X<a>.<b>  swap
//     K<v>      delete slot v                           T<v>      the threads operate on slot v (default 0)
//     S<v>      snapshot of slot v (kept per slot number) R<v>.<i>  read [i] through the snapshot taken with S<v>
//   the monitors line then also carries objs=<per slot bs:blocks:ctor:built-by-per-block:retired>/... nb=.. nk=..
// stdout: one line per case:
//   <case-id> ok steps=<n> | <per-op results, blocks numbered by first appearance> blocks=.. bdead=.. tables=.. tfreed=.. rlist=.. | mon=<verdicts> [! first violation]
// Observation points (no edit of /repo): global operator new/delete replacement (block tables are the cache-line aligned
// allocations, blocks the 2x cache-line aligned ones: Elem is alignas(2 * BABYLON_CACHELINE_SIZE)); constructor/destructor of Elem; the private
// members _block_table / _retire_list._head are sampled (plain loads, no scheduling point) through -fno-access-control.
#include "shim/prelude.h"
#include "babylon/concurrent/vector.h"
#undef atomic
#undef atomic_thread_fence

#include <cstdio>
#include <cstring>
#include <sstream>

using namespace babylon;

// --------------------------------------------------------------------------- tracking state
namespace trk {
struct TableInfo { size_t size; bool ever_current = false; bool superseded = false; uint64_t sup_ns = 0; bool freed = false; uint64_t free_ns = 0; int frees = 0; int ident = -1; };
struct BlockInfo { size_t size; bool published = false; bool freed = false; int frees = 0; bool freed_in_dtor = false; int seq = 0; };
struct ElemInfo { int ctor = 0; int dtor = 0; bool live = false; };

static thread_local int in_hook = 0;
static bool active = false;         // a case is running
static bool destructing = false;    // ~ConcurrentVector in progress
static std::map<void*, TableInfo>* tables;
static std::map<void*, BlockInfo>* blocks;
static std::map<void*, ElemInfo>* elems;
static std::vector<void*>* quarantine;
static std::string* first_violation;
static std::function<void()>* sampler;   // looks at _block_table, marks supersede times
static bool v_ctor = true, v_dtor = true, v_cool = true, v_leak = true, v_snap = true, v_same = true, v_stable = true, v_segs = true;
static bool stale_push = false;
static int dying_ident = -2;          // >= -1 while a vector object (shell) is being deleted: identity of ITS contents
static bool ident_alive[256];
static int blocks_created = 0, blocks_dead = 0, tables_created = 0, tables_freed = 0, blocks_freed_all = 0;

static void note(bool& flag, const std::string& what) {
  flag = false;
  if (first_violation->empty()) *first_violation = what;
}
static uint64_t now() { return verif::now_ns(); }
static bool in_block(void* p) {
  auto it = blocks->upper_bound(p);
  if (it == blocks->begin()) return false;
  --it;
  return (char*)p < (char*)it->first + it->second.size;
}
static void* superseded_by[64];            // table replaced by the most recent successful _block_table CAS of thread t
static bool changed_in_op[64];
}  // namespace trk

static void* raw_alloc(size_t size, size_t align) {
  void* p = nullptr;
  if (align <= 16) p = malloc(size ? size : 1);
  else if (posix_memalign(&p, align, size ? size : align) != 0) p = nullptr;
  if (!p) abort();
  return p;
}

static void* tracked_new(size_t size, size_t align) {
  void* p = raw_alloc(size, align);
  if (!trk::active || trk::in_hook) return p;
  trk::in_hook++;
  if (*trk::sampler) (*trk::sampler)();
  if (align == BABYLON_CACHELINE_SIZE) {
    trk::TableInfo ti; ti.size = size;
    (*trk::tables)[p] = ti;
    trk::tables_created++;
  } else if (align == 2 * BABYLON_CACHELINE_SIZE) {
    memset(p, 0xAB, size);
    trk::BlockInfo bi; bi.size = size; bi.seq = trk::blocks_created++;
    (*trk::blocks)[p] = bi;
  }
  trk::in_hook--;
  return p;
}

static void tracked_delete(void* p, size_t align) {
  if (!p) return;
  if (!trk::active || trk::in_hook) { free(p); return; }
  trk::in_hook++;
  if (*trk::sampler) (*trk::sampler)();
  bool keep = false;
  char buf[256];
  auto t = trk::tables->find(p);
  if (t != trk::tables->end()) {
    keep = true;
    trk::TableInfo& ti = t->second;
    ti.frees++;
    if (ti.freed) trk::note(trk::v_leak, "block table freed twice");
    else {
      ti.freed = true; ti.free_ns = trk::now();
      if (trk::destructing && trk::dying_ident >= -1 && ti.ident >= 0 && ti.ident != trk::dying_ident && ti.ident < 256 &&
          trk::ident_alive[ti.ident] && ti.superseded && ti.free_ns - ti.sup_ns < 64000000000ull) {
        // a retired table of contents that live on in another vector object is freed by the destruction of a shell
        snprintf(buf, sizeof buf, "block table freed %.3f s after the growth that superseded it (< 64 s cooling period), by the "
                 "destruction of the vector object its elements were moved out of", (double)(ti.free_ns - ti.sup_ns) / 1e9);
        trk::note(trk::v_cool, buf);
      }
      if (!trk::destructing) {
        trk::tables_freed++;
        if (ti.ever_current && !ti.superseded) trk::note(trk::v_cool, "the CURRENT block table was freed");
        else if (ti.ever_current && ti.free_ns - ti.sup_ns < 64000000000ull) {
          snprintf(buf, sizeof buf, "block table freed %.3f s after the growth that superseded it (< 64 s cooling period)",
                   (double)(ti.free_ns - ti.sup_ns) / 1e9);
          trk::note(trk::v_cool, buf);
        }
      }
    }
  }
  auto b = trk::blocks->find(p);
  if (b != trk::blocks->end()) {
    keep = true;
    trk::BlockInfo& bi = b->second;
    bi.frees++;
    if (bi.freed) trk::note(trk::v_leak, "block freed twice");
    bi.freed = true; bi.freed_in_dtor = trk::destructing; trk::blocks_freed_all++;
    if (!trk::destructing) {
      trk::blocks_dead++;
      if (bi.published) trk::note(trk::v_stable, "a block that was visible through a published table was freed while the vector is alive");
    }
  }
  if (keep) trk::quarantine->push_back(p);   // never reuse an address within a case
  else free(p);
  trk::in_hook--;
}

void* operator new(size_t n) { return tracked_new(n, 16); }
void* operator new[](size_t n) { return tracked_new(n, 16); }
void* operator new(size_t n, std::align_val_t a) { return tracked_new(n, (size_t)a); }
void* operator new[](size_t n, std::align_val_t a) { return tracked_new(n, (size_t)a); }
void* operator new(size_t n, const std::nothrow_t&) noexcept { return tracked_new(n, 16); }
void* operator new[](size_t n, const std::nothrow_t&) noexcept { return tracked_new(n, 16); }
void operator delete(void* p) noexcept { tracked_delete(p, 16); }
void operator delete[](void* p) noexcept { tracked_delete(p, 16); }
void operator delete(void* p, size_t) noexcept { tracked_delete(p, 16); }
void operator delete[](void* p, size_t) noexcept { tracked_delete(p, 16); }
void operator delete(void* p, std::align_val_t a) noexcept { tracked_delete(p, (size_t)a); }
void operator delete[](void* p, std::align_val_t a) noexcept { tracked_delete(p, (size_t)a); }
void operator delete(void* p, size_t, std::align_val_t a) noexcept { tracked_delete(p, (size_t)a); }
void operator delete[](void* p, size_t, std::align_val_t a) noexcept { tracked_delete(p, (size_t)a); }
void operator delete(void* p, const std::nothrow_t&) noexcept { tracked_delete(p, 16); }
void operator delete[](void* p, const std::nothrow_t&) noexcept { tracked_delete(p, 16); }

// --------------------------------------------------------------------------- counting element type
static thread_local std::vector<void*>* assign_log = nullptr;
struct alignas(2 * BABYLON_CACHELINE_SIZE) Elem {
  uint64_t magic;
  uint64_t tag;     // identity written by the driver through the references it obtained
  uint64_t fill;    // written by operator= (fill_n / copy_n)
  uint64_t ctor_id; // which element constructor built it: 1 = T(), k >= 2 = user functor k (set by the functor)
  Elem() {
    if (trk::active && trk::in_block(this)) {
      trk::in_hook++;
      trk::ElemInfo& e = (*trk::elems)[this];
      if (e.live) trk::note(trk::v_ctor, "element constructed twice at the same address");
      e.ctor++; e.live = true;
      trk::in_hook--;
    }
    magic = 0xC0FFEE; tag = 0; fill = 0; ctor_id = 1;
  }
  Elem(const Elem& o) : Elem() { fill = o.fill; }
  ~Elem() {
    if (trk::active && trk::in_block(this)) {
      trk::in_hook++;
      trk::ElemInfo& e = (*trk::elems)[this];
      if (!e.live) trk::note(trk::v_dtor, "element destroyed while not constructed (destroyed twice / never built)");
      e.dtor++; e.live = false;
      trk::in_hook--;
    }
    magic = 0xDEAD;
  }
  Elem& operator=(const Elem& o) {
    fill = o.fill;
    if (assign_log) { trk::in_hook++; assign_log->push_back(this); trk::in_hook--; }
    return *this;
  }
};

struct Op { char k; long long a = 0, b = 0; std::string res; std::vector<std::pair<Elem*, Elem*>> segs; Elem* ptr = nullptr; bool has = false; };

template <size_t BS>
static void run_case(const char* id, unsigned long long seed, int strategy, size_t hint, const std::string& prog,
                     const std::string& choices, const std::string& setup) {
  using Vec = ConcurrentVector<Elem, BS>;
  std::vector<std::vector<Op>> threads;
  {
    std::stringstream ss(prog); std::string th;
    while (std::getline(ss, th, '|')) {
      std::vector<Op> ops; std::stringstream s2(th); std::string o;
      while (std::getline(s2, o, ',')) {
        if (o.empty()) continue;
        Op op; op.k = o[0];
        if (o.size() > 1) {
          op.a = atoll(o.c_str() + 1);
          size_t dash = o.find('-', 1);
          if (dash != std::string::npos) op.b = atoll(o.c_str() + dash + 1);
        }
        ops.push_back(op);
      }
      threads.push_back(ops);
    }
  }
  std::map<void*, trk::TableInfo> tables; std::map<void*, trk::BlockInfo> blocks; std::map<void*, trk::ElemInfo> elems;
  std::vector<void*> quarantine; std::string first_violation; std::function<void()> sampler;
  trk::tables = &tables; trk::blocks = &blocks; trk::elems = &elems; trk::quarantine = &quarantine;
  trk::first_violation = &first_violation; trk::sampler = &sampler;
  trk::v_ctor = trk::v_dtor = trk::v_cool = trk::v_leak = trk::v_snap = trk::v_same = trk::v_stable = trk::v_segs = true;
  trk::stale_push = false; trk::destructing = false; memset(trk::changed_in_op, 0, sizeof trk::changed_in_op);
  trk::blocks_created = trk::blocks_dead = trk::tables_created = trk::tables_freed = trk::blocks_freed_all = 0;
  std::map<size_t, Elem*> addr_of_index; std::map<Elem*, size_t> index_of_addr;
  long long wall_sum = 0;   // seconds the calendar clock was stepped by so far in this case
  // (the shim computes the calendar time as unsigned virtual ns + offset: never let it go below the start of the run)
  auto step_wall = [&](long long sec) {
    if ((long long)(verif::now_ns() / 1000000000ull) + wall_sum + sec < 0) return;
    wall_sum += sec; verif::step_wall_clock((int64_t)sec * 1000000000ll);
  };
  void* last_cur = nullptr;
  Vec* vec = nullptr;
  trk::in_hook++;
  trk::active = true;
  trk::in_hook--;
  using BT = typename Vec::BlockTable;
  const void* EMPTY = (const void*)&Vec::EMPTY_BLOCK_TABLE;
  // ---- whole-object phase (sequential): slots, the constructor id each slot carries, the identity of its contents
  Vec* slots[4] = {nullptr, nullptr, nullptr, nullptr};
  uint64_t slot_ctor[4] = {0, 0, 0, 0}; int slot_ident[4] = {-1, -1, -1, -1}; int next_ident = 0; int target = 0;
  std::map<std::pair<int, size_t>, Elem*> recorded;     // (identity of the contents, index) -> address handed out
  typename Vec::Snapshot ssnap[4]; void* ssnap_tab[4] = {nullptr, nullptr, nullptr, nullptr}; int ssnap_ident[4] = {-1, -1, -1, -1};
  memset(trk::ident_alive, 0, sizeof trk::ident_alive); trk::dying_ident = -2;
  auto fresh_ident = [&]() { int k = next_ident++; if (k < 256) trk::ident_alive[k] = true; return k; };
  auto new_vec = [&](uint64_t k) -> Vec* {
    if (k <= 1) return (BS == 0) ? new Vec(hint) : new Vec();
    auto fn = [k](Elem* p) { new (p) Elem; p->ctor_id = k; };
    return new Vec(hint, fn);
  };
  auto check_recorded = [&](const char* when) {
    trk::in_hook++;
    for (auto& kv : recorded) {
      int holder = -1;
      for (int v = 0; v < 4; ++v) if (slots[v] && slot_ident[v] == kv.first.first) holder = v;
      if (holder < 0) continue;                       // contents destroyed with their vector
      Vec* o = slots[holder]; size_t idx = kv.first.second; Elem* p = kv.second;
      auto e = elems.find(p);
      if (idx >= o->size() || &(*o)[idx] != p) trk::note(trk::v_stable, std::string("element address changed across ") + when);
      else if (e == elems.end() || !e->second.live || p->magic != 0xC0FFEE) trk::note(trk::v_stable, std::string("element no longer constructed after ") + when);
      else if (p->tag != idx + 1) trk::note(trk::v_stable, std::string("element content changed across ") + when);
    }
    trk::in_hook--;
  };
  if (setup.empty() || setup == "-") { slots[0] = new_vec(1); slot_ctor[0] = 1; slot_ident[0] = fresh_ident(); }
  else {
   // run under the scheduler (one thread) so that retire() stamps come from the same virtual clock as later
   std::vector<std::function<void()>> setup_body;
   setup_body.push_back([&] {
    std::stringstream ss(setup); std::string o;
    while (std::getline(ss, o, ',')) {
      if (o.size() < 2) continue;
      if (o[0] == 'W') { step_wall(atoll(o.c_str() + 1)); continue; }
      int a = o[1] - '0'; long long b = 0; size_t dot = o.find('.');
      if (dot != std::string::npos) b = atoll(o.c_str() + dot + 1);
      if (a < 0 || a > 3) continue;
      switch (o[0]) {
        case 'D': if (!slots[a]) { slots[a] = new_vec(1); slot_ctor[a] = 1; slot_ident[a] = fresh_ident(); } break;
        case 'N': if (!slots[a]) { slots[a] = new_vec((uint64_t)b); slot_ctor[a] = (uint64_t)b; slot_ident[a] = fresh_ident(); } break;
        case 'G': if (slots[a] && b >= 0) {
          void* tab_before = (void*)slots[a]->_block_table.B::load(std::memory_order_relaxed);
          Elem* p = &slots[a]->ensure((size_t)b);
          trk::in_hook++;
          {
            void* tab_after = (void*)slots[a]->_block_table.B::load(std::memory_order_relaxed);
            auto nw = tables.find(tab_after);
            if (nw != tables.end()) { nw->second.ever_current = true; nw->second.ident = slot_ident[a]; }
            if (tab_after != tab_before) {
              auto od = tables.find(tab_before);
              if (od != tables.end()) { od->second.ever_current = true; od->second.superseded = true; od->second.sup_ns = trk::now(); od->second.ident = slot_ident[a]; }
            }
          }
          auto e = elems.find(p);
          if (e == elems.end() || !e->second.live || p->magic != 0xC0FFEE) trk::note(trk::v_ctor, "ensure() returned an element that was never constructed (index " + std::to_string(b) + ")");
          else {
            if (p->ctor_id != slot_ctor[a]) trk::note(trk::v_ctor, "element was not built by the constructor its vector was created with");
            auto key = std::make_pair(slot_ident[a], (size_t)b);
            if (recorded.count(key) && recorded[key] != p) trk::note(trk::v_same, "index designated two different elements");
            recorded[key] = p; p->tag = (uint64_t)b + 1;
          }
          trk::in_hook--;
        } break;
        case 'M': if (!slots[a] && b >= 0 && b < 4 && slots[b] && a != b) {
          slots[a] = new Vec(std::move(*slots[b]));
          slot_ctor[a] = slot_ctor[b]; slot_ident[a] = slot_ident[b]; slot_ident[b] = fresh_ident();
          check_recorded("move construction");
        } break;
        case 'A': if (slots[a] && b >= 0 && b < 4 && slots[b] && a != b) {
          *slots[a] = std::move(*slots[b]);
          std::swap(slot_ctor[a], slot_ctor[b]); std::swap(slot_ident[a], slot_ident[b]);
          check_recorded("move assignment");
        } break;
        case 'X': if (slots[a] && b >= 0 && b < 4 && slots[b] && a != b) {
          slots[a]->swap(*slots[b]);
          std::swap(slot_ctor[a], slot_ctor[b]); std::swap(slot_ident[a], slot_ident[b]);
          check_recorded("swap");
        } break;
        case 'K': if (slots[a]) {
          int di = slot_ident[a];
          if (di >= 0 && di < 256) trk::ident_alive[di] = false;
          trk::dying_ident = di; trk::destructing = true; delete slots[a]; trk::destructing = false; trk::dying_ident = -2;
          slots[a] = nullptr; slot_ident[a] = -1;
        } break;
        case 'S': if (slots[a]) {
          ssnap[a] = slots[a]->snapshot(); ssnap_tab[a] = (void*)ssnap[a]._block_table; ssnap_ident[a] = slot_ident[a];
          trk::in_hook++; { auto it = tables.find(ssnap_tab[a]); if (it != tables.end()) { it->second.ever_current = true; it->second.ident = slot_ident[a]; } } trk::in_hook--;
        } break;
        case 'R': if (ssnap_tab[a] && b >= 0) {
          trk::in_hook++;
          auto it = tables.find(ssnap_tab[a]);
          bool freed = it != tables.end() && it->second.freed;
          bool alive = ssnap_ident[a] >= 0 && ssnap_ident[a] < 256 && trk::ident_alive[ssnap_ident[a]];
          if (freed && alive && it->second.superseded && trk::now() - it->second.sup_ns <= 64000000000ull) {
            char buf[256]; snprintf(buf, sizeof buf, "snapshot unusable (its table is freed) only %.3f s after the growth that superseded it, "
                                    "the vector's elements are alive in another object", (double)(trk::now() - it->second.sup_ns) / 1e9);
            trk::note(trk::v_snap, buf);
          }
          trk::in_hook--;
          if (!freed && alive && (size_t)b < ssnap[a].size()) {
            Elem* p = &ssnap[a][(size_t)b];
            trk::in_hook++;
            auto key = std::make_pair(ssnap_ident[a], (size_t)b);
            if (recorded.count(key) && recorded[key] != p) trk::note(trk::v_same, "snapshot designates a different element for an index");
            trk::in_hook--;
          }
        } break;
        case 'T': target = a; break;
      }
    }
   });
   verif::Options sopt; sopt.seed = 1; sopt.strategy = 0; sopt.max_steps = 200000;
   verif::run(setup_body, sopt);
  }
  if (!slots[target]) { for (int v = 0; v < 4; ++v) if (slots[v]) { target = v; break; } }
  if (!slots[target]) { slots[target] = new_vec(1); slot_ctor[target] = 1; slot_ident[target] = fresh_ident(); }
  vec = slots[target];
  const uint64_t want_ctor = slot_ctor[target];
  const size_t bsize = vec->block_size();
  // the threads start from what the whole-object phase left in the target: its table is current, its blocks published,
  // the addresses recorded for its contents are the reference for every later request of the same index
  last_cur = (void*)vec->_block_table.B::load(std::memory_order_relaxed);
  {
    trk::in_hook++;
    auto it = tables.find(last_cur);
    if (it != tables.end()) {
      it->second.ever_current = true;
      BT* bt = (BT*)last_cur;
      for (size_t i = 0; i < bt->size; ++i) { auto b = blocks.find((void*)bt->blocks[i]); if (b != blocks.end()) b->second.published = true; }
    }
    for (auto& kv : recorded) if (kv.first.first == slot_ident[target]) { addr_of_index[kv.first.second] = kv.second; index_of_addr[kv.second] = kv.first.second; }
    trk::in_hook--;
  }
  uint64_t empty_sup_ns = 0; bool empty_sup = false;
  // called (with in_hook set) at every allocation / free / op boundary: a successful _block_table CAS is followed by
  // `new Node` before the next scheduling point, so every published table is seen here at the instant it is published
  sampler = [&] {
    void* cur = (void*)vec->_block_table.B::load(std::memory_order_relaxed);
    if (cur == last_cur) return;
    if (verif::self() >= 0 && verif::self() < 64) { trk::changed_in_op[verif::self()] = true; trk::superseded_by[verif::self()] = last_cur; }
    if (last_cur == EMPTY) { empty_sup = true; empty_sup_ns = trk::now(); }
    else {
      auto it = tables.find(last_cur);
      if (it != tables.end()) { it->second.superseded = true; it->second.sup_ns = trk::now(); }
    }
    auto it = tables.find(cur);
    if (it != tables.end()) {
      if (it->second.freed) trk::note(trk::v_cool, "a freed block table was installed");
      it->second.ever_current = true;
      BT* bt = (BT*)cur;
      for (size_t i = 0; i < bt->size; ++i) {
        auto b = blocks.find((void*)bt->blocks[i]);
        if (b == blocks.end()) trk::note(trk::v_stable, "published table holds a pointer that is not a block");
        else { if (b->second.freed) trk::note(trk::v_stable, "published table holds a freed block"); b->second.published = true; }
      }
    }
    last_cur = cur;
  };
  auto sample = [&] { trk::in_hook++; sampler(); trk::in_hook--; };
  // every address handed out is checked against the per-index map, liveness and the identity tag
  auto observe = [&](size_t index, Elem* p) {
    trk::in_hook++;
    auto e = elems.find(p);
    if (e == elems.end() || !e->second.live || p->magic != 0xC0FFEE) trk::note(trk::v_ctor, "reference to an element that is not (or no longer) constructed was returned for index " + std::to_string(index));
    else if (p->ctor_id != want_ctor) trk::note(trk::v_ctor, "element of index " + std::to_string(index) + " was not built by the constructor its vector carries");
    else {
      auto a = addr_of_index.find(index);
      if (a == addr_of_index.end()) {
        addr_of_index[index] = p;
        if (index_of_addr.count(p)) trk::note(trk::v_same, "two indices share one element");
        index_of_addr[p] = index;
        if (p->tag != 0) trk::note(trk::v_same, "fresh index designates an element already used for another index");
        p->tag = index + 1;
      } else {
        if (a->second != p) trk::note(trk::v_same, "index " + std::to_string(index) + " designated two different elements");
        else if (p->tag != index + 1) trk::note(trk::v_stable, "element of index " + std::to_string(index) + " lost its identity tag");
      }
    }
    trk::in_hook--;
  };
  std::vector<std::function<void()>> bodies;
  for (size_t t = 0; t < threads.size(); ++t) {
    bodies.push_back([&, t] {
      typename Vec::Snapshot snap; bool has_snap = false; uint64_t snap_ns = 0;
      for (size_t i = 0; i < threads[t].size(); ++i) {
        Op& op = threads[t][i];
        sample();
        trk::changed_in_op[t] = false;
        switch (op.k) {
          case 'E': { Elem* p = &vec->ensure((size_t)op.a); sample(); observe((size_t)op.a, p); op.ptr = p; op.has = true; } break;
          case 'R': vec->reserve((size_t)op.a); sample(); op.res = "u"; break;
          case 'I': {
            if ((size_t)op.a < vec->size()) { Elem* p = &(*vec)[(size_t)op.a]; observe((size_t)op.a, p); op.ptr = p; op.has = true; }
            else op.res = "e-";
          } break;
          case 'Z': op.res = "z" + std::to_string(vec->size()); break;
          case 'S': snap = vec->snapshot(); has_snap = true; snap_ns = trk::now(); op.res = "u"; break;
          case 'G': {
            if (!has_snap) { op.res = "e-"; break; }
            void* tb = (void*)snap._block_table;
            trk::in_hook++;
            auto it = tables.find(tb);
            bool freed = it != tables.end() && it->second.freed;
            if (freed) {
              uint64_t since = trk::now() - it->second.sup_ns;
              if (since <= 64000000000ull) {
                char buf[200]; snprintf(buf, sizeof buf, "snapshot unusable (its table is freed) only %.3f s after the growth that superseded it", (double)since / 1e9);
                trk::note(trk::v_snap, buf);
              }
            }
            trk::in_hook--;
            if (freed) { op.res = "X"; break; }
            if ((size_t)op.a < snap.size()) { Elem* p = &snap[(size_t)op.a]; observe((size_t)op.a, p); op.ptr = p; op.has = true; }
            else op.res = "e-";
          } break;
          case 'F': {
            size_t next = (size_t)op.a;
            vec->for_each((size_t)op.a, (size_t)op.b, [&](Elem* b, Elem* e) {
              op.segs.push_back({b, e});
              if (e <= b) trk::note(trk::v_segs, "for_each passed an empty or reversed segment");
              for (Elem* p = b; p < e; ++p) observe(next++, p);
            });
            sample();
            if (next != (size_t)std::max(op.a, op.b)) trk::note(trk::v_segs, "for_each did not visit exactly [begin, end)");
          } break;
          case 'L': case 'P': {
            std::vector<void*> log; size_t n = (size_t)(op.b - op.a);
            Elem v; v.fill = 1000 + t * 100 + i;
            std::vector<Elem> src;
            if (op.k == 'P') { trk::in_hook++; src.resize(n); trk::in_hook--; for (size_t k = 0; k < n; ++k) src[k].fill = 1000 + t * 100 + i; }
            assign_log = &log;
            if (op.k == 'L') vec->fill_n((size_t)op.a, n, v); else vec->copy_n(src.begin(), n, (size_t)op.a);
            assign_log = nullptr;
            sample();
            if (log.size() != n) trk::note(trk::v_segs, "fill_n/copy_n did not assign exactly `size` elements");
            for (size_t k = 0; k < log.size(); ++k) {
              Elem* p = (Elem*)log[k];
              observe((size_t)op.a + k, p);
              if (op.segs.empty() || op.segs.back().second != p || ((size_t)op.a + k) % bsize == 0) op.segs.push_back({p, p + 1});
              else op.segs.back().second = p + 1;
            }
            trk::in_hook++; src.clear(); src.shrink_to_fit(); trk::in_hook--;
          } break;
          case 'C': vec->gc(); sample(); op.res = "u"; break;
          case 'A': verif::advance_time((uint64_t)op.a * 1000000000ull); op.res = "u"; break;
          case 'W': step_wall(op.a); op.res = "u"; break;
        }
        // own push carried a stamp that is not the current time unit (DESIGN F4: stale retire stamp)
        if (trk::changed_in_op[t]) {
          using Node = typename internal::concurrent_vector::RetireList<BT, typename Vec::BlockTableDeleter>::Node;
          uint64_t h = vec->_retire_list._head.B::load(std::memory_order_relaxed);
          Node* node = (Node*)(h & 0x0000FFFFFFFFFFFFull);
          if (node && (void*)node->data == trk::superseded_by[t]) {
            // the library's own clock-to-stamp function (private static), on the virtual clock
            uint64_t unit = internal::concurrent_vector::RetireList<BT, typename Vec::BlockTableDeleter>::get_current_timestamp();
            if ((h >> 48) != unit) trk::stale_push = true;
          }
        }
      }
    });
  }
  verif::Options opt; opt.seed = seed; opt.strategy = strategy; opt.max_steps = 200000;
  if (!choices.empty() && choices != "-") {
    std::stringstream cs(choices); std::string c;
    while (std::getline(cs, c, ',')) opt.choices.push_back(atoi(c.c_str()));
  }
  verif::Result r = verif::run(bodies, opt);
  sample();
  // every reference ever handed out is still valid and still is the element of its index
  for (auto& kv : addr_of_index) {
    auto e = elems.find(kv.second);
    if (e == elems.end() || !e->second.live) trk::note(trk::v_stable, "element of index " + std::to_string(kv.first) + " was destroyed while the vector is alive");
    else if (kv.second->tag != kv.first + 1) trk::note(trk::v_stable, "element of index " + std::to_string(kv.first) + " lost its identity tag");
    if (kv.first < vec->size() && &(*vec)[kv.first] != kv.second) trk::note(trk::v_stable, "vector[" + std::to_string(kv.first) + "] moved");
    else if (kv.first >= vec->size()) trk::note(trk::v_stable, "vector shrank below an index that was handed out");
  }
  // results: blocks numbered by first appearance
  std::map<void*, int> canon;
  auto locate = [&](Elem* p, bool end_ptr, std::string& out) {
    void* key = (void*)(end_ptr ? p - 1 : p);
    auto it = blocks.upper_bound(key);
    if (it == blocks.begin()) { out += "?"; trk::note(trk::v_stable, "pointer outside every block"); return (long)-1; }
    --it;
    if ((char*)key >= (char*)it->first + it->second.size) { out += "?"; trk::note(trk::v_stable, "pointer outside every block"); return (long)-1; }
    if (!canon.count(it->first)) { int c = (int)canon.size(); canon[it->first] = c; }
    out += std::to_string(canon[it->first]);
    return (long)(p - (Elem*)it->first);
  };
  std::string out;
  for (size_t t = 0; t < threads.size(); ++t) {
    for (size_t i = 0; i < threads[t].size(); ++i) {
      Op& op = threads[t][i];
      if (op.has) { op.res = "e"; long off = locate(op.ptr, false, op.res); op.res += "." + std::to_string(off); }
      else if (op.k == 'F' || op.k == 'L' || op.k == 'P') {
        op.res = "s";
        for (size_t k = 0; k < op.segs.size(); ++k) {
          if (k) op.res += "+";
          long lo = locate(op.segs[k].first, false, op.res);
          long hi = lo + (op.segs[k].second - op.segs[k].first);
          op.res += ":" + std::to_string(lo) + "-" + std::to_string(hi);
          if (hi > (long)bsize) trk::note(trk::v_segs, "segment crosses a block boundary");
        }
      }
      out += op.res + (i + 1 < threads[t].size() ? "," : "");
    }
    out += (t + 1 < threads.size() ? "|" : "");
  }
  int rlist = 0;
  {
    using Node = typename internal::concurrent_vector::RetireList<BT, typename Vec::BlockTableDeleter>::Node;
    uint64_t h = vec->_retire_list._head.B::load(std::memory_order_relaxed);
    Node* n = (Node*)(h & 0x0000FFFFFFFFFFFFull);
    while (n && rlist < 100000) { rlist++; n = n->next; }
  }
  char stats[200];
  snprintf(stats, sizeof stats, " blocks=%d bdead=%d tables=%d tfreed=%d rlist=%d", trk::blocks_created, trk::blocks_dead,
           trk::tables_created, trk::tables_freed, rlist);
  out += stats;
  verif::step_wall_clock(-(int64_t)wall_sum * 1000000000ll); wall_sum = 0;   // the process runs many cases
  // what the whole-object phase + the threads left in every slot
  check_recorded("the concurrent phase");
  std::string objs;
  {
    using Node = typename internal::concurrent_vector::RetireList<BT, typename Vec::BlockTableDeleter>::Node;
    trk::in_hook++;
    for (int v = 0; v < 4; ++v) {
      if (v) objs += "/";
      Vec* o = slots[v];
      if (!o) { objs += "-"; continue; }
      BT* bt = o->_block_table.B::load(std::memory_order_relaxed);
      size_t obs = o->block_size();
      objs += std::to_string(obs) + ":" + std::to_string(bt->size) + ":" + std::to_string((bool)o->_constructor ? slot_ctor[v] : 0) + ":";
      for (size_t i = 0; i < bt->size; ++i) {
        Elem* blk = bt->blocks[i]; long id = -2;
        for (size_t k = 0; k < obs; ++k) {
          auto e = elems.find(blk + k);
          long here = (e != elems.end() && e->second.live && blk[k].magic == 0xC0FFEE) ? (long)blk[k].ctor_id : 0;
          if (id == -2) id = here; else if (id != here) id = -1;
        }
        if (id > 0 && (uint64_t)id != slot_ctor[v]) trk::note(trk::v_ctor, "a block of a vector was not built by the constructor the vector carries");
        if (id == 0) trk::note(trk::v_ctor, "a published block holds elements that were never constructed");
        objs += (i ? "." : "") + (id == -1 ? std::string("!") : std::to_string(id));
      }
      int rl = 0; uint64_t h = o->_retire_list._head.B::load(std::memory_order_relaxed);
      Node* n = (Node*)(h & 0x0000FFFFFFFFFFFFull);
      while (n && rl < 100000) { rl++; n = n->next; }
      objs += ":" + std::to_string(rl);
    }
    objs += ",nb=" + std::to_string(trk::blocks_created) + ",nk=" + std::to_string(trk::blocks_freed_all);
    trk::in_hook--;
  }
  // the vectors die
  size_t live_before = 0;
  for (auto& e : elems) live_before += e.second.live;
  trk::destructing = true;
  for (int v = 0; v < 4; ++v) if (slots[v]) { delete slots[v]; slots[v] = nullptr; }
  for (auto& e : elems) {
    if (e.second.live) trk::note(trk::v_dtor, "an element was never destroyed");
    if (e.second.ctor != 1) trk::note(trk::v_ctor, "an element was constructed " + std::to_string(e.second.ctor) + " times");
    if (e.second.dtor != 1) trk::note(trk::v_dtor, "an element was destroyed " + std::to_string(e.second.dtor) + " times");
  }
  for (auto& b : blocks) {
    if (b.second.frees != 1) trk::note(trk::v_leak, "a block was freed " + std::to_string(b.second.frees) + " times");
    if (b.second.published && !b.second.freed_in_dtor) trk::note(trk::v_stable, "a published block died before the vector");
  }
  for (auto& tb : tables)
    if (tb.second.frees != 1) trk::note(trk::v_leak, "a block table was freed " + std::to_string(tb.second.frees) + " times");
  {
    size_t want = 0;
    for (auto& b : blocks) want += b.second.size / sizeof(Elem);
    if (elems.size() != want) trk::note(trk::v_ctor, "number of constructed elements differs from the capacity of the blocks created");
  }
  trk::in_hook++;
  trk::active = false;
  for (void* p : quarantine) free(p);
  trk::in_hook--;
  printf("%s ok steps=%llu | %s | same=%d stable=%d ctor=%d dtor=%d cool=%d snap=%d leak=%d segs=%d stale=%d objs=%s%s%s\n", id,
         (unsigned long long)r.steps, out.c_str(), trk::v_same, trk::v_stable, trk::v_ctor, trk::v_dtor, trk::v_cool, trk::v_snap,
         trk::v_leak, trk::v_segs, trk::stale_push ? 1 : 0, objs.c_str(), first_violation.empty() ? "" : " ! ", first_violation.c_str());
  fflush(stdout);
  (void)live_before; (void)empty_sup; (void)empty_sup_ns;
}

int main() {
  static char line[1 << 16];
  while (fgets(line, sizeof line, stdin)) {
    char id[64], block[32]; static char prog[30000], choices[30000], setup[30000];
    unsigned long long seed; int strategy;
    choices[0] = 0; setup[0] = 0;
    int n = sscanf(line, "%63s %llu %d %31s %29999s %29999s %29999s", id, &seed, &strategy, block, prog, choices, setup);
    if (n < 5) continue;
    size_t v = (size_t)atoll(block + 1);
    if (block[0] == 'd') run_case<0>(id, seed, strategy, v, prog, choices, setup);
    else if (v == 1) run_case<1>(id, seed, strategy, v, prog, choices, setup);
    else if (v == 2) run_case<2>(id, seed, strategy, v, prog, choices, setup);
    else if (v == 4) run_case<4>(id, seed, strategy, v, prog, choices, setup);
    else run_case<8>(id, seed, strategy, v, prog, choices, setup);
  }
  return 0;
}
