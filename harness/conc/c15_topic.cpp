// C15 driver: real babylon::ConcurrentTransientTopic<uint64_t> under the deterministic scheduler.
// stdin lines:  <case-id> <sched-seed> <strategy> <program>
//   program = threads separated by '|', ops separated by ',':
//     P        topic.publish(v)                     one item
//     N<k>     topic.publish_n(k, fill)             k items (k may be 0 or exceed the 128-slot block)
//     C<k>     one consumer.consume(k) call         -> [v.v.v] or E (end marker)
//     c        one consumer.consume() call          -> [v] or E
//     L<k>     consume(k) repeatedly until the end marker
//     X        topic.close()
//     Z        topic.clear()                        (program keeps it quiescent with barriers)
//     S        consumer = topic.subscribe()         (every thread starts with a fresh consumer)
//     B        barrier over all threads of the program (harness-level, models the documented usage
//              "close after all publishes returned", "clear when nobody uses the topic")
//   item values are unique: (thread+1)*100000 + (op index+1)*1000 + k
// stdout: <case-id> ok steps=<n> pre=<n> | <per-op results in program order> | <monitor verdicts>
#include "shim/prelude.h"
#include "babylon/concurrent/transient_topic.h"

#include <cstdio>
#include <cstring>
#include <map>
#include <set>
#include <sstream>

using namespace babylon;
typedef ConcurrentTransientTopic<uint64_t> Topic;

struct Op { char k; long long arg; std::string res; uint64_t b = 0, e = 0; int epoch = 0; };
struct Item { uint64_t v; const void* addr; int pub; };                  // pub = index into pubs
struct Pub { int t, i, epoch; uint64_t b, e; std::vector<uint64_t> vals; std::vector<const void*> addrs; };
struct Sub { int t, epoch; std::vector<uint64_t> got; std::vector<const void*> ptrs; bool ended = false; };
static const uint64_t POISON = 0xDEADDEADDEADull;

int main(int argc, char** argv) {
  static char line[65536];
  while (fgets(line, sizeof line, stdin)) {
    static char id[64], prog[65000];
    unsigned long long seed; int strategy;
    if (sscanf(line, "%63s %llu %d %64999s", id, &seed, &strategy, prog) != 4) continue;
    std::vector<std::vector<Op>> threads;
    {
      std::stringstream ss(prog); std::string th;
      while (std::getline(ss, th, '|')) {
        std::vector<Op> ops; std::stringstream s2(th); std::string o;
        while (std::getline(s2, o, ',')) if (!o.empty()) ops.push_back(Op{o[0], o.size() > 1 ? atoll(o.c_str() + 1) : 0, ""});
        threads.push_back(ops);
      }
    }
    const size_t NT = threads.size();
    Topic* topic = new Topic();
    std::vector<Pub> pubs; std::vector<Sub> subs;
    pubs.reserve(4096); subs.reserve(4096);   // references stay valid across scheduling points
    int epoch = 0; std::vector<uint64_t> close_begin(1, 0);   // per epoch: stamp at which the first close() began (0 = none)
    std::vector<size_t> arrived(64, 0);
    bool mon_val = true, mon_size = true, mon_block = true, mon_end = true, mon_sticky = true, mon_fill = true;
    std::vector<std::function<void()>> bodies;
    for (size_t t = 0; t < NT; ++t) {
      bodies.push_back([&, t] {
        Topic::Consumer consumer = topic->subscribe();
        subs.push_back(Sub{(int)t, epoch}); size_t sub = subs.size() - 1;
        size_t nbar = 0;
        // one consume call; returns false on the end marker
        auto consume_once = [&](Op& op, size_t k, bool single) -> bool {
          uint64_t b = verif::stamp();
          std::vector<uint64_t> vals; std::vector<const void*> ptrs;
          if (single) {
            uint64_t* p = consumer.consume();
            if (p) { vals.push_back(*p); ptrs.push_back(p); }
          } else {
            auto range = consumer.consume(k);
            for (size_t j = 0; j < range.size(); ++j) { vals.push_back(range[j]); ptrs.push_back(&range[j]); }
          }
          uint64_t e = verif::stamp();
          Sub& s = subs[sub];
          uint64_t cb = close_begin[s.epoch];
          bool close_started = cb != 0 && cb <= e;
          if (vals.size() > k) mon_size = false;
          if (vals.size() < k && !close_started) mon_block = false;       // returned short although nobody closed
          if (s.ended && !vals.empty()) mon_sticky = false;               // items after the end marker
          if (vals.empty()) {
            op.res += "E"; s.ended = true;
          } else {
            op.res += "[";
            for (size_t j = 0; j < vals.size(); ++j) { op.res += (j ? "." : "") + std::to_string(vals[j]); s.got.push_back(vals[j]); s.ptrs.push_back(ptrs[j]); }
            op.res += "]";
          }
          (void)b;
          return !vals.empty();
        };
        for (size_t i = 0; i < threads[t].size(); ++i) {
          Op& op = threads[t][i];
          op.b = verif::stamp(); op.epoch = epoch;
          switch (op.k) {
            case 'P': case 'N': {
              size_t n = op.k == 'P' ? 1 : (size_t)op.arg;
              pubs.push_back(Pub{(int)t, (int)i, epoch, op.b, 0}); size_t pi = pubs.size() - 1;
              uint64_t base = (t + 1) * 100000ull + (i + 1) * 1000ull;
              if (op.k == 'P') {
                topic->publish(base);           // value written inside the library; slot unknown to the client
                pubs[pi].vals.push_back(base); pubs[pi].addrs.push_back(nullptr);
              } else {
                size_t k = 0;
                topic->publish_n(n, [&](Topic::Iterator it, Topic::Iterator end) {
                  for (; it != end; ++it, ++k) {
                    // the range is exclusively ours until the callback returns: a half-written item
                    // (poison first, scheduling point, then the value) must never be visible
                    *it = POISON;
                    pubs[pi].addrs.push_back(&*it);
                    verif::point(verif::K_USER, 0, &*it, "c15-fill", 0);
                    if (*it != POISON) mon_fill = false;          // somebody else wrote into our slot
                    *it = base + k;
                    pubs[pi].vals.push_back(base + k);
                  }
                });
                if (k != n) mon_size = false;
              }
              op.res = std::string(1, op.k);
              pubs[pi].e = verif::stamp();
            } break;
            case 'C': consume_once(op, (size_t)op.arg, false); break;
            case 'c': consume_once(op, 1, true); break;
            case 'L': while (consume_once(op, (size_t)op.arg, false)) {} break;
            case 'X': if (!close_begin[epoch]) close_begin[epoch] = op.b ? op.b : 1; topic->close(); op.res = "X"; break;
            case 'Z': topic->clear(); epoch++; close_begin.push_back(0); op.res = "Z"; break;
            case 'S': consumer = topic->subscribe(); subs.push_back(Sub{(int)t, epoch}); sub = subs.size() - 1; op.res = "S"; break;
            case 'B': {
              size_t j = nbar++;
              arrived[j]++;
              while (arrived[j] < NT) usleep(1);
              op.res = "B";
            } break;
          }
          op.e = verif::stamp();
        }
      });
    }
    verif::Options opt; opt.seed = seed; opt.strategy = strategy; opt.max_steps = 400000;
    verif::Result r = verif::run(bodies, opt);
    // ---------------------------------------------------------------- monitors over the whole history
    bool mon_once = true, mon_order = true, mon_slot = true, mon_rt = true;
    std::map<uint64_t, std::pair<int, size_t>> where;   // value -> (pub, k)
    for (size_t p = 0; p < pubs.size(); ++p)
      for (size_t k = 0; k < pubs[p].vals.size(); ++k) where[pubs[p].vals[k]] = {(int)p, k};
    // publishers never share a slot (addresses handed to publish_n callbacks, per epoch)
    {
      std::set<std::pair<int, const void*>> seen;
      for (auto& p : pubs) for (auto a : p.addrs) if (a) { if (!seen.insert({p.epoch, a}).second) mon_slot = false; }
    }
    for (auto& s : subs) {
      std::set<uint64_t> seen;
      size_t total = 0;
      for (auto& p : pubs) if (p.epoch == s.epoch) total += p.vals.size();
      for (size_t j = 0; j < s.got.size(); ++j) {
        uint64_t v = s.got[j];
        auto w = where.find(v);
        if (w == where.end() || pubs[w->second.first].epoch != s.epoch) { mon_val = false; continue; }   // poison / stale / foreign value
        if (!seen.insert(v).second) mon_once = false;                                                   // delivered twice
        const Pub& p = pubs[w->second.first];
        const void* a = p.addrs[w->second.second];
        if (a && a != s.ptrs[j]) mon_slot = false;                       // consumer reads another slot than the publisher wrote
        // items of one batch are consecutive and in batch order
        if (w->second.second > 0 && (j == 0 || s.got[j - 1] != p.vals[w->second.second - 1])) mon_order = false;
      }
      // real-time order: a publish that returned before another began has the smaller indices
      {
        std::map<int, size_t> first;
        for (size_t j = 0; j < s.got.size(); ++j) { auto w = where.find(s.got[j]); if (w != where.end()) first.insert({w->second.first, j}); }
        for (auto& x : first) for (auto& y : first)
          if (pubs[x.first].e != 0 && pubs[x.first].e < pubs[y.first].b && x.second > y.second) mon_rt = false;
      }
      if (s.ended && seen.size() != total) mon_end = false;              // end marker before every item was delivered
    }
    // all consumers of an epoch see the same sequence (each one a prefix of the longest)
    for (auto& a : subs) for (auto& b : subs) if (a.epoch == b.epoch && a.got.size() <= b.got.size())
      for (size_t j = 0; j < a.got.size(); ++j) if (a.got[j] != b.got[j]) mon_order = false;
    std::string out;
    for (size_t t = 0; t < NT; ++t) {
      for (size_t i = 0; i < threads[t].size(); ++i) out += threads[t][i].res + (i + 1 < threads[t].size() ? "," : "");
      out += (t + 1 < NT ? "|" : "");
    }
    printf("%s ok steps=%llu pre=%llu | %s | val=%d once=%d order=%d rt=%d slot=%d fill=%d size=%d block=%d end=%d sticky=%d\n", id,
           (unsigned long long)r.steps, (unsigned long long)r.preemptions, out.c_str(), mon_val, mon_once, mon_order, mon_rt,
           mon_slot, mon_fill, mon_size, mon_block, mon_end, mon_sticky);
    fflush(stdout);
    delete topic;
  }
  return 0;
}
