"""Tiny C++ expression front end for the translator (python3 stdlib only).

tokenize / parse a C integer-expression subset and print it as a Gallina term
over Z (comparisons and logical operators print as bool terms).

Supported: integer literals (dec/hex, suffixes), identifiers (with :: and .
and -> member paths collapsed to one name), + - * / % << >> & | ^ ~ ! && ||
?: == != < <= > >=, parentheses, static_cast<T>(e) / T(e) for integer T,
sizeof(T) / alignof(T) through a table, calls f(a, b) to names present in the
environment (std::min/std::max built in).

Semantics chosen (stated in the trusted base): unsigned/signed arithmetic is
mapped to unbounded Z; '/' is Z.div and '%' Z.modulo (agree with C for
non-negative operands, which every use here has); '~e' is Z.lnot (two's
complement of unbounded width - correct once masked or and-ed with a
non-negative value); static_cast to an N-bit unsigned type is 'mod 2^N'.
"""
import re

TOKEN_RE = re.compile(r"""
    (?P<ws>\s+|//[^\n]*|/\*.*?\*/)
  | (?P<num>0[xX][0-9a-fA-F']+[uUlL]*|\d[\d']*[uUlL]*)
  | (?P<id>(?:::)?[A-Za-z_]\w*(?:\s*(?:::|\.|->)\s*[A-Za-z_]\w*)*)
  | (?P<op><<|>>|<=|>=|==|!=|&&|\|\||[-+*/%&|^~!<>?:(),\[\]{}])
""", re.X | re.S)


class ParseError(Exception):
    pass


def tokenize(s):
    out = []
    pos = 0
    while pos < len(s):
        m = TOKEN_RE.match(s, pos)
        if not m:
            raise ParseError("cannot tokenize at: %r" % s[pos:pos + 30])
        pos = m.end()
        if m.lastgroup == 'ws':
            continue
        txt = m.group(m.lastgroup)
        if m.lastgroup == 'id':
            txt = re.sub(r"\s+", "", txt)
            if txt.startswith("::"):
                txt = txt[2:]
        out.append((m.lastgroup, txt))
    return out


UNSIGNED_BITS = {
    'uint8_t': 8, 'uint16_t': 16, 'uint32_t': 32, 'uint64_t': 64, 'size_t': 64,
    'uintptr_t': 64, 'std::size_t': 64, 'std::uint8_t': 8, 'std::uint16_t': 16,
    'std::uint32_t': 32, 'std::uint64_t': 64, 'unsigned': 32,
}
SIGNED_BITS = {'int8_t': 8, 'int16_t': 16, 'int32_t': 32, 'int64_t': 64, 'int': 32,
               'ssize_t': 64, 'ptrdiff_t': 64, 'std::int64_t': 64, 'std::int32_t': 32}

BINPREC = [
    ('||',), ('&&',), ('|',), ('^',), ('&',), ('==', '!='), ('<', '<=', '>', '>='),
    ('<<', '>>'), ('+', '-'), ('*', '/', '%'),
]


class Parser:
    def __init__(self, toks):
        self.t = toks
        self.i = 0

    def peek(self):
        return self.t[self.i] if self.i < len(self.t) else (None, None)

    def eat(self, txt=None):
        k, v = self.peek()
        if txt is not None and v != txt:
            raise ParseError("expected %r got %r" % (txt, v))
        self.i += 1
        return k, v

    def parse(self):
        e = self.ternary()
        if self.i != len(self.t):
            raise ParseError("trailing tokens: %r" % (self.t[self.i:],))
        return e

    def ternary(self):
        c = self.binary(0)
        if self.peek()[1] == '?':
            self.eat('?')
            a = self.ternary()
            self.eat(':')
            b = self.ternary()
            return ('ite', c, a, b)
        return c

    def binary(self, lvl):
        if lvl == len(BINPREC):
            return self.unary()
        lhs = self.binary(lvl + 1)
        while self.peek()[1] in BINPREC[lvl] and self.peek()[0] == 'op':
            op = self.eat()[1]
            rhs = self.binary(lvl + 1)
            lhs = ('bin', op, lhs, rhs)
        return lhs

    def unary(self):
        k, v = self.peek()
        if k == 'op' and v in ('-', '~', '!', '+'):
            self.eat()
            return ('un', v, self.unary())
        return self.postfix()

    def type_in_angle(self):
        self.eat('<')
        parts = []
        depth = 1
        while True:
            k, v = self.eat()
            if v == '<':
                depth += 1
            elif v == '>':
                depth -= 1
                if depth == 0:
                    break
            elif v == '>>':
                depth -= 2
                if depth <= 0:
                    break
            elif v is None:
                raise ParseError("unterminated <")
            parts.append(v)
        return "".join(parts)

    def postfix(self):
        k, v = self.peek()
        if k == 'num':
            self.eat()
            txt = v.replace("'", "").rstrip('uUlL')
            return ('num', int(txt, 0))
        if k == 'op' and v == '(':
            self.eat('(')
            e = self.ternary()
            self.eat(')')
            return e
        if k == 'id':
            self.eat()
            if v in ('static_cast', 'reinterpret_cast'):
                ty = self.type_in_angle()
                self.eat('(')
                e = self.ternary()
                self.eat(')')
                return ('cast', ty, e)
            if v in ('sizeof', 'alignof'):
                self.eat('(')
                depth = 1
                parts = []
                while True:
                    k2, v2 = self.eat()
                    if v2 == '(':
                        depth += 1
                    elif v2 == ')':
                        depth -= 1
                        if depth == 0:
                            break
                    parts.append(v2)
                return ('sizeof' if v == 'sizeof' else 'alignof', "".join(parts))
            # template call like std::min<size_t>(a, b)
            targ = None
            if self.peek()[1] == '<' and v in ('std::min', 'std::max'):
                targ = self.type_in_angle()
            if self.peek()[1] == '(':
                self.eat('(')
                args = []
                if self.peek()[1] != ')':
                    args.append(self.ternary())
                    while self.peek()[1] == ',':
                        self.eat(',')
                        args.append(self.ternary())
                self.eat(')')
                if v in UNSIGNED_BITS or v in SIGNED_BITS:
                    return ('cast', v, args[0])
                return ('call', v, args)
            return ('id', v)
        raise ParseError("unexpected token %r" % (v,))


def parse(s):
    return Parser(tokenize(s)).parse()


BOOL_OPS = {'==': 'Z.eqb', '!=': None, '<': 'Z.ltb', '<=': 'Z.leb', '>': 'Z.gtb', '>=': 'Z.geb'}
ARITH = {'+': 'Z.add', '-': 'Z.sub', '*': 'Z.mul', '/': 'Z.div', '%': 'Z.modulo',
         '<<': 'Z.shiftl', '>>': 'Z.shiftr', '&': 'Z.land', '|': 'Z.lor', '^': 'Z.lxor'}


class Env:
    """names: C identifier -> Coq term; sizes: type -> int; funcs: C callee -> Coq function."""

    def __init__(self, names=None, sizes=None, funcs=None, aligns=None):
        self.names = dict(names or {})
        self.sizes = dict(sizes or {})
        self.aligns = dict(aligns or {})
        self.funcs = dict(funcs or {})


def is_bool(ast):
    if ast[0] == 'bin' and (ast[1] in BOOL_OPS or ast[1] in ('&&', '||')):
        return True
    if ast[0] == 'un' and ast[1] == '!':
        return True
    if ast[0] == 'ite':
        return is_bool(ast[2]) and is_bool(ast[3])
    return False


def as_bool(ast, env):
    if is_bool(ast):
        return to_coq(ast, env)
    return "(negb (Z.eqb %s 0))" % to_coq(ast, env)


def as_int(ast, env):
    if is_bool(ast):
        return "(if %s then 1 else 0)" % to_coq(ast, env)
    return to_coq(ast, env)


def to_coq(ast, env):
    k = ast[0]
    if k == 'num':
        return "%d" % ast[1] if ast[1] >= 0 else "(%d)" % ast[1]
    if k == 'id':
        name = ast[1]
        if name in env.names:
            return env.names[name]
        raise ParseError("unknown identifier %r" % name)
    if k == 'sizeof':
        if ast[1] in env.sizes:
            return "%d" % env.sizes[ast[1]]
        raise ParseError("unknown sizeof(%s)" % ast[1])
    if k == 'alignof':
        if ast[1] in env.aligns:
            return "%d" % env.aligns[ast[1]]
        raise ParseError("unknown alignof(%s)" % ast[1])
    if k == 'cast':
        ty = ast[1].replace('::std::', 'std::').lstrip(':')
        inner = as_int(ast[2], env)
        if ty in UNSIGNED_BITS:
            return "(Z.modulo %s (2 ^ %d))" % (inner, UNSIGNED_BITS[ty])
        if ty in SIGNED_BITS:
            b = SIGNED_BITS[ty]
            return "(Z.modulo (%s + 2 ^ %d) (2 ^ %d) - 2 ^ %d)" % (inner, b - 1, b, b - 1)
        if ty.endswith('*') or ty in ('bool',):
            return inner
        if ty in getattr(env, 'typemods', {}):      # template type parameter: cast = reduction modulo the given Coq term
            return "(Z.modulo %s %s)" % (inner, env.typemods[ty])
        raise ParseError("unsupported cast to %r" % ty)
    if k == 'un':
        op = ast[1]
        if op == '!':
            return "(negb %s)" % as_bool(ast[2], env)
        if op == '-':
            return "(Z.opp %s)" % as_int(ast[2], env)
        if op == '+':
            return as_int(ast[2], env)
        if op == '~':
            return "(Z.lnot %s)" % as_int(ast[2], env)
    if k == 'bin':
        op = ast[1]
        if op == '&&':
            return "(andb %s %s)" % (as_bool(ast[2], env), as_bool(ast[3], env))
        if op == '||':
            return "(orb %s %s)" % (as_bool(ast[2], env), as_bool(ast[3], env))
        a, b = as_int(ast[2], env), as_int(ast[3], env)
        if op == '!=':
            return "(negb (Z.eqb %s %s))" % (a, b)
        if op in BOOL_OPS:
            return "(%s %s %s)" % (BOOL_OPS[op], a, b)
        return "(%s %s %s)" % (ARITH[op], a, b)
    if k == 'ite':
        if is_bool(ast[2]) and is_bool(ast[3]):
            return "(if %s then %s else %s)" % (as_bool(ast[1], env), to_coq(ast[2], env), to_coq(ast[3], env))
        return "(if %s then %s else %s)" % (as_bool(ast[1], env), as_int(ast[2], env), as_int(ast[3], env))
    if k == 'call':
        name = ast[1].replace('::std::', 'std::')
        args = [as_int(a, env) for a in ast[2]]
        if name in ('std::min', 'min'):
            return "(Z.min %s %s)" % tuple(args)
        if name in ('std::max', 'max'):
            return "(Z.max %s %s)" % tuple(args)
        if name in env.funcs:
            return "(%s %s)" % (env.funcs[name], " ".join(args))
        raise ParseError("unknown function %r" % name)
    raise ParseError("cannot print %r" % (ast,))
