#!/usr/bin/env python3
"""Translator (engine E2): re-extracts constants, pure integer expressions and
atomic-operation site tables from /repo's *current* sources into coq/Gen/Gen_<comp>.v.

usage: gen.py <comp> [--repo /repo] [--out /verif/coq/Gen]
Targets live in translator/targets/<comp>.json.  A target that cannot be located
or parsed is an error (exit 2, message on stderr): the tie is broken, nothing stale
is kept.
"""
import json
import os
import re
import sys

sys.path.insert(0, os.path.dirname(os.path.abspath(__file__)))
import cexpr  # noqa: E402

HERE = os.path.dirname(os.path.abspath(__file__))


class GenError(Exception):
    pass


def strip_comments(src):
    src = re.sub(r"/\*.*?\*/", lambda m: re.sub(r"[^\n]", " ", m.group(0)), src, flags=re.S)
    src = re.sub(r"//[^\n]*", "", src)
    return src


def match_close(src, i, open_ch, close_ch):
    """src[i] == open_ch; returns index of the matching close."""
    depth = 0
    j = i
    while j < len(src):
        c = src[j]
        if c == open_ch:
            depth += 1
        elif c == close_ch:
            depth -= 1
            if depth == 0:
                return j
        elif c == '"':
            j += 1
            while j < len(src) and src[j] != '"':
                if src[j] == '\\':
                    j += 1
                j += 1
        elif c == "'" and j + 2 < len(src) and (src[j + 2] == "'" or src[j + 1] == '\\'):
            j = src.index("'", j + 2 if src[j + 1] == '\\' else j + 1)
        j += 1
    raise GenError("unbalanced %s" % open_ch)


def function_body(src, qualname, nth=0):
    """Body (text between the braces) of the nth definition whose declarator ends in qualname(...)."""
    pat = re.compile(r"(?<![\w:])(?:[\w:<>, ]*::)?" + re.escape(qualname) + r"\s*\(")
    found = 0
    for m in pat.finditer(src):
        close = match_close(src, m.end() - 1, '(', ')')
        k = close + 1
        # skip qualifiers / trailing return / initialiser list up to '{' or ';'
        depth = 0
        while k < len(src):
            c = src[k]
            if c == '(':
                k = match_close(src, k, '(', ')')
            elif c == '{' and depth == 0:
                # initialiser-list braces "x {y}" are preceded by an identifier; a body brace is
                # preceded by ')' / 'noexcept' / 'const' / 'override' / '>' etc.  Take the first
                # brace whose previous non-space token is not an identifier inside a ctor init list.
                break
            elif c == ';' or c == '}':
                k = -1
                break
            k += 1
        if k < 0 or k >= len(src):
            continue
        # reject calls: a definition's '{' must come before any ';'
        end = match_close(src, k, '{', '}')
        if found == nth:
            return src[k + 1:end]
        found += 1
    raise GenError("function %s (occurrence %d) not found" % (qualname, nth))


def split_args(s):
    args, depth, cur = [], 0, ""
    for ch in s:
        if ch in "([{<" and not (ch == '<' and False):
            depth += 1 if ch != '<' else 0
        if ch in ")]}":
            depth -= 1
        if ch == ',' and depth == 0:
            args.append(cur)
            cur = ""
        else:
            cur += ch
    if cur.strip():
        args.append(cur)
    return [a.strip() for a in args]


def locate(src, t):
    kind = t["kind"]
    if kind == "define":
        m = re.search(r"#\s*define\s+" + re.escape(t["var"]) + r"\s+(.+)", src)
        if not m:
            raise GenError("#define %s not found" % t["var"])
        ms = list(re.finditer(r"#\s*define\s+" + re.escape(t["var"]) + r"\s+(.+)", src))
        return ms[t.get("nth", 0)].group(1).strip()
    if kind == "constexpr":
        ms = list(re.finditer(r"constexpr[^;=]*?\b" + re.escape(t["var"]) + r"\s*(?:=|\{)\s*", src))
        if not ms:
            raise GenError("constexpr %s not found" % t["var"])
        m = ms[t.get("nth", 0)]
        if src[m.end() - 1] == '{' or src[m.end() - 2:m.end()].strip().endswith('{'):
            br = src.rindex('{', 0, m.end())
            return src[br + 1:match_close(src, br, '{', '}')]
        end = src.index(';', m.end())
        return src[m.end():end]
    body = function_body(src, t["func"], t.get("func_nth", 0)) if "func" in t else src
    if kind == "local":
        ms = list(re.finditer(r"(?<![\w.>])" + re.escape(t["var"]) + r"\s*=(?!=)\s*", body))
        if not ms:
            raise GenError("local %s not found in %s" % (t["var"], t.get("func")))
        m = ms[t.get("nth", 0)]
        end = body.index(';', m.end())
        return body[m.end():end]
    if kind == "cond":
        ms = list(re.finditer(r"\b(" + t.get("kw", "if|while") + r")\s*\(", body))
        if len(ms) <= t.get("nth", 0):
            raise GenError("condition #%d not found in %s" % (t.get("nth", 0), t.get("func")))
        m = ms[t["nth"]]
        close = match_close(body, m.end() - 1, '(', ')')
        return body[m.end():close]
    if kind == "callarg":
        ms = list(re.finditer(r"(?<![\w])" + re.escape(t["callee"]) + r"\s*(?:<[^;()]*>)?\s*\(", body))
        if len(ms) <= t.get("nth", 0):
            raise GenError("call #%d of %s not found in %s" % (t.get("nth", 0), t["callee"], t.get("func")))
        m = ms[t.get("nth", 0)]
        close = match_close(body, m.end() - 1, '(', ')')
        args = split_args(body[m.end():close])
        if len(args) <= t["arg"]:
            raise GenError("call of %s has no argument %d" % (t["callee"], t["arg"]))
        return args[t["arg"]]
    if kind == "ret":
        ms = list(re.finditer(r"\breturn\b\s*", body))
        if len(ms) <= t.get("nth", 0):
            raise GenError("return #%d not found in %s" % (t.get("nth", 0), t.get("func")))
        m = ms[t.get("nth", 0)]
        end = body.index(';', m.end())
        return body[m.end():end]
    if kind == "order":
        # 1 if the first match of pattern "first" starts before the first match of pattern "then", else 0
        # (a missing "first" counts as 0 when "missing_first" is "zero"; a missing "then" is an error)
        a = re.search(t["first"], body, re.S)
        b = re.search(t["then"], body, re.S)
        if not b:
            raise GenError("pattern %s not found in %s" % (t["then"], t.get("func", "file")))
        if not a:
            if t.get("missing_first") == "zero":
                return "0"
            raise GenError("pattern %s not found in %s" % (t["first"], t.get("func", "file")))
        return "1" if a.start() < b.start() else "0"
    if kind == "count":
        # number of matches of "pattern" in the function body (comments stripped by source()), as a literal
        return str(len(re.findall(t["pattern"], body, re.S)))
    if kind == "regex":
        m = re.search(t["pattern"], body, re.S)
        if not m:
            raise GenError("pattern %s not found in %s" % (t["pattern"], t.get("func", "file")))
        return m.group(1)
    raise GenError("unknown target kind %s" % kind)


ATOMIC_RE = re.compile(
    r"(?P<obj>[\w:.\->\[\]()*&]*?)\s*(?:\.|->)\s*(?P<kind>load|store|exchange|fetch_add|fetch_sub|fetch_or|fetch_and|"
    r"compare_exchange_strong|compare_exchange_weak)\s*\(|(?P<fence>atomic_thread_fence)\s*\(")


def sites(src, func, func_nth=0):
    body = function_body(src, func, func_nth)
    out = []
    for m in ATOMIC_RE.finditer(body):
        close = match_close(body, m.end() - 1, '(', ')')
        args = body[m.end():close]
        orders = re.findall(r"memory_order_(\w+)", args)
        kind = m.group('kind') or 'fence'
        if not orders:
            orders = ['seq_cst']
        out.append((kind, orders))
    return out


ORDER_COQ = {'relaxed': 'Relaxed', 'consume': 'Acquire', 'acquire': 'Acquire', 'release': 'Release',
             'acq_rel': 'AcqRel', 'seq_cst': 'SeqCst'}
KIND_COQ = {'load': 'KLoad', 'store': 'KStore', 'exchange': 'KXchg', 'fetch_add': 'KFadd', 'fetch_sub': 'KFsub',
            'fetch_or': 'KFor', 'fetch_and': 'KFand', 'compare_exchange_strong': 'KCasS',
            'compare_exchange_weak': 'KCasW', 'fence': 'KFence'}


def generate(comp, repo, outdir):
    spec = json.load(open(os.path.join(HERE, "targets", comp + ".json")))
    lines = ["(* GENERATED by translator/gen.py from %s -- do not edit. *)" % ", ".join(sorted(set(
        t["file"] for t in spec.get("defs", []) + spec.get("sites", [])))),
        "From Coq Require Import ZArith Bool List.", "Import ListNotations.", "Local Open Scope Z_scope.", ""]
    if spec.get("sites"):
        lines.insert(1, "Require Import Verif.Base.Atomics.")
    cache = {}

    def source(rel):
        if rel not in cache:
            path = os.path.join(repo, rel)
            if not os.path.exists(path):
                raise GenError("source file %s missing" % rel)
            cache[rel] = strip_comments(open(path, encoding="utf-8", errors="replace").read())
        return cache[rel]

    sizes = spec.get("sizeof", {})
    aligns = spec.get("alignof", {})
    known = dict(spec.get("names", {}))
    funcs = dict(spec.get("funcs", {}))
    report = []
    for t in spec.get("defs", []):
        try:
            try:
                text = locate(source(t["file"]), t)
            except GenError:
                if "default" not in t:      # opt-in: a target may say what its absence means (e.g. "member not swapped" = 0)
                    raise
                text = t["default"]
            for pat, rep in t.get("subst", []):     # optional textual normalisation before parsing
                text = re.sub(pat, rep, text)
            names = dict(known)
            for p in t.get("params", []):
                names[p] = t.get("rename", {}).get(p, p.replace("::", "_").replace(".", "_").replace("->", "_"))
            for a, b in t.get("alias", {}).items():
                names[a] = b
            if t.get("locals") and "func" in t:
                # opt-in: initialised locals of the function (`auto x = e;`, `uintN_t x = e;`) become aliases for
                # their initialiser (auto / signed: no wrap; uintN_t: mod 2^N), so that a rewrite which introduces a
                # local changes the generated definition instead of breaking the target
                body = function_body(source(t["file"]), t["func"], t.get("func_nth", 0))
                for lm in re.finditer(r"(?:^|[;{}])\s*(?:const\s+)?(auto|u?int\d+_t|size_t|int|unsigned|bool)\s+(\w+)\s*=\s*([^;]+);", body):
                    lty, lname, lexpr = lm.group(1), lm.group(2), lm.group(3)
                    lenv = cexpr.Env(names=names, sizes=sizes, funcs=funcs, aligns=aligns)
                    lenv.typemods = spec.get("typemods", {})
                    last = cexpr.parse(lexpr)
                    lterm = cexpr.as_int(last, lenv)
                    if lty in cexpr.UNSIGNED_BITS:
                        lterm = "(Z.modulo %s (2 ^ %d))" % (lterm, cexpr.UNSIGNED_BITS[lty])
                    names[lname] = lterm
            env = cexpr.Env(names=names, sizes=sizes, funcs=funcs, aligns=aligns)
            env.typemods = spec.get("typemods", {})
            ast = cexpr.parse(text)
            as_bool = t.get("type") == "bool" or (t.get("type") is None and cexpr.is_bool(ast))
            term = cexpr.as_bool(ast, env) if as_bool else cexpr.as_int(ast, env)
        except (GenError, cexpr.ParseError, ValueError, IndexError, KeyError) as e:
            raise GenError("target %s (%s %s): %s" % (t["name"], t["file"], t.get("func", ""), e))
        params = " ".join("(%s : Z)" % names[p] for p in t.get("params", []))
        ty = "bool" if as_bool else "Z"
        lines.append("(* %s : %s  <-  %s *)" % (t["name"], t["file"],
                     " ".join(text.split()).replace("(*", "( *").replace("*)", "* )")))
        lines.append("Definition %s %s : %s := %s." % (t["name"], params, ty, term))
        lines.append("")
        known[t.get("cname", t["name"])] = t["name"] if not t.get("params") else known.get(t["name"], t["name"])
        if t.get("params"):
            funcs[t.get("cname", t["name"])] = t["name"]
        report.append({"name": t["name"], "source": " ".join(text.split()), "coq": term})
    for s in spec.get("sites", []):
        try:
            lst = sites(source(s["file"]), s["func"], s.get("func_nth", 0))
        except GenError as e:
            raise GenError("sites %s: %s" % (s["name"], e))
        items = []
        for kind, orders in lst:
            o1 = ORDER_COQ[orders[0]]
            o2 = ORDER_COQ[orders[1]] if len(orders) > 1 else o1
            items.append("(%s, %s, %s)" % (KIND_COQ[kind], o1, o2))
        lines.append("(* atomic operations of %s in source order *)" % s["func"])
        lines.append("Definition %s : list (akind * morder * morder) := [%s]." % (s["name"], "; ".join(items)))
        lines.append("")
        report.append({"name": s["name"], "sites": [[k] + o for k, o in lst]})
    os.makedirs(outdir, exist_ok=True)
    out = os.path.join(outdir, "Gen_%s.v" % comp)
    new = "\n".join(lines) + "\n"
    old = open(out).read() if os.path.exists(out) else None
    if old != new:
        with open(out, "w") as f:
            f.write(new)
    return report


def main():
    args = sys.argv[1:]
    repo = os.environ.get("REPO", "/repo")
    out = os.path.join(os.path.dirname(HERE), "coq", "Gen")
    comps = []
    while args:
        a = args.pop(0)
        if a == "--repo":
            repo = args.pop(0)
        elif a == "--out":
            out = args.pop(0)
        else:
            comps.append(a)
    try:
        for c in comps:
            rep = generate(c, repo, out)
            print(json.dumps({"comp": c, "targets": rep}))
    except GenError as e:
        sys.stderr.write("translator: %s\n" % e)
        sys.exit(2)


if __name__ == "__main__":
    main()
