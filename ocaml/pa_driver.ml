(* stdin: "<id> <kind> <qcap> <pcap> <program>"
     kind C / P / S : program = threads '|', ops ','   (C: A<n> F<n>; P: O U D T; S: N G R D T); prints every outcome
                      the model admits over all schedules (per-op results, cache content, returned, fresh)
     kind B         : "<id> B <batch> <nthreads> <ops>"  ops = a<t> n<t>:<k> f<t> m<t>:<k> ; deterministic outcome *)
let lst (l : nat list) : string = "[" ^ String.concat ";" (List.map (fun n -> string_of_int (int_of_nat n)) l) ^ "]"

let parse_op (kind : string) (o : string) : op =
  let arg () = nat_of_int (int_of_string (String.sub o 1 (String.length o - 1))) in
  match kind, o.[0] with
  | "C", 'A' -> OAlloc (arg ()) | "C", 'F' -> OFree (arg ())
  | "P", 'O' -> OPoolPop | "P", ('U' | 'D') -> OPoolPush | "P", 'T' -> OTryPop
  | "S", 'N' -> ONew | "S", 'G' -> OSPop | "S", ('R' | 'D') -> OSPush | "S", 'T' -> OTryPop
  | _ -> failwith ("bad op " ^ o)

let show_res (r : res) : string =
  match r with
  | RAlloc l -> "A" ^ lst l | RFree -> "F" | RPush b -> if b then "U1" else "U0"
  | RNew p -> "N" ^ string_of_int (int_of_nat p) | RPop p -> "O" ^ string_of_int (int_of_nat p)
  | RTry (Some p) -> "T" ^ string_of_int (int_of_nat p) | RTry None -> "T-" | RSPush -> "F" | RSkip -> "_"

let parse_bop (o : string) : bop =
  let body = String.sub o 1 (String.length o - 1) in
  let t, k = match String.split_on_char ':' body with
    | [t] -> int_of_string t, 0 | [t; k] -> int_of_string t, int_of_string k | _ -> failwith "bad bop" in
  match o.[0] with
  | 'a' -> BAlloc (nat_of_int t) | 'n' -> BAllocN (nat_of_int t, nat_of_int k)
  | 'f' -> BFree (nat_of_int t) | 'm' -> BFreeN (nat_of_int t, nat_of_int k)
  | _ -> failwith ("bad bop " ^ o)

let parse_cop (o : string) : cop =
  let arg () = nat_of_int (int_of_string (String.sub o 1 (String.length o - 1))) in
  match o.[0] with
  | 'O' -> CPop (arg ()) | 'T' -> CTry (arg ()) | 'N' -> CNewH | 'H' -> CPushH (arg ()) | 'U' -> CPushU (arg ())
  | 'D' -> CDie | 'V' -> CMove | 'X' | 'Y' -> CMovePool (arg ()) | _ -> failwith ("bad cop " ^ o)
let show_cres (o : string) (r : cres) : string =
  match r with
  | CGot x -> String.make 1 o.[0] ^ string_of_int (int_of_nat x) | CNone -> "T-" | CBlocked -> "O!"
  | CPushed d -> if d then "P1" else "P0" | CNew x -> "N" ^ string_of_int (int_of_nat x)
  | CDied -> "D" | CMoved -> "V" | CPoolMoved -> String.make 1 o.[0] | CSkip -> "_"

let () = iter_lines (fun line ->
  match words line with
  | [id; "M"; modes; cap; prog] ->
    let ms = List.init (String.length modes) (fun i -> modes.[i] = '1') in
    let ops = List.filter (fun x -> x <> "") (String.split_on_char ',' prog) in
    let s = crun (cinit ms (nat_of_int (int_of_string cap))) (List.map parse_cop ops) in
    let sorted l = List.sort compare (List.map int_of_nat l) in
    Printf.printf "%s %s cached=%s destroyed=%s rec=%s fresh=%d leaked=[%s] held=%s\n" id
      (String.concat "," (List.map2 show_cres ops s.clog))
      (String.concat "/" (List.map (fun p -> lst p.cq) s.cpools)) (lst s.cdestroyed)
      (String.concat "/" (List.map (fun p -> lst p.crec) s.cpools)) (int_of_nat s.cfresh)
      (String.concat ";" (List.map string_of_int (sorted s.cleaked)))
      (lst (List.map (fun h -> h.hobj) s.hands))
  | [id; "B"; batch; nt; prog] ->
    let ops = List.map parse_bop (List.filter (fun x -> x <> "") (String.split_on_char ',' prog)) in
    let s = brun (binit (nat_of_int (int_of_string batch)) (nat_of_int (int_of_string nt))) ops in
    let ((held, rest), ((ret, fresh), cnt)) = boutcome s in
    let s2 = bdtor s in
    let ((_, rest2), ((ret2, _), _)) = boutcome s2 in
    Printf.printf "%s held=%s rest=%s returned=%s fresh=%d count=%d err=%b dtor_rest=%d dtor_ret=%d\n" id
      (String.concat "|" (List.map lst held)) (String.concat "|" (List.map lst rest)) (lst ret) (int_of_nat fresh)
      (int_of_z cnt) (berr s) (List.length (List.concat rest2)) (List.length ret2)
  | [id; kind; qcap; pcap; prog] ->
    let progs = List.map (fun th -> List.map (parse_op kind) (List.filter (fun x -> x <> "") (String.split_on_char ',' th)))
        (String.split_on_char '|' prog) in
    let nt = List.length progs in
    let s0 = init (nat_of_int (int_of_string qcap)) (nat_of_int (int_of_string pcap)) progs in
    let tids = List.init nt nat_of_int in
    let (terms, nstates, ntrans, trunc) = explore step tids (fun _ -> true) s0 3000000 in
    let outs = Hashtbl.create 64 in
    let stuck = ref 0 and errs = ref 0 and dtor_bad = ref 0 in
    List.iter (fun s ->
      if err s then incr errs;
      if not (all_done s) then incr stuck;
      let (rs, ((cached, ret), fresh)) = outcome s in
      (if all_done s then
         let (_, ((c2, r2), _)) = outcome (dtor s) in
         if c2 <> [] || r2 <> ret @ cached then incr dtor_bad);
      let o = String.concat "|" (List.map (fun l -> String.concat "," (List.map show_res l)) rs) ^
              " cached=" ^ lst cached ^ " returned=" ^ lst ret ^ " fresh=" ^ string_of_int (int_of_nat fresh) ^
              (if all_done s then "" else " STUCK") in
      Hashtbl.replace outs o ()) terms;
    let l = List.sort compare (Hashtbl.fold (fun k () acc -> k :: acc) outs []) in
    Printf.printf "%s states=%d trans=%d trunc=%b stuck=%d errs=%d dtorbad=%d outcomes=%s\n" id nstates ntrans trunc !stuck
      !errs !dtor_bad (String.concat "#" l)
  | _ -> ())
