(* C11 model driver.  One case per line:
     <id> E <ty...> ; <val...>        encode a typed value
     <id> D <nd> <unl> <ty...> ; <hex>  parse bytes (nd: NDEBUG build, unl: stream without limit)
   types : b i8 i16 i32 u8 u16 u32 i64 u64 en en8 enu8 enu32 en64 enu64 f32 f64 str ( vec T ) ( list T ) ( set T ) ( map K V )
           ( arr N T ) ( up T ) ( sp T ) ( agg N1 T1 N2 T2 ... )
   values: decimal | s<hex> | [ v ... ] | N | P v *)
let rec z_of_string (s : string) : z =
  (* decimal, possibly negative, arbitrary size *)
  let neg = String.length s > 0 && s.[0] = '-' in
  let digits = if neg then String.sub s 1 (String.length s - 1) else s in
  let ten = z_of_int 10 in
  let acc = ref Z0 in
  String.iter (fun c -> acc := Z.add (Z.mul !acc ten) (z_of_int (Char.code c - 48))) digits;
  if neg then (match !acc with Zpos p -> Zneg p | a -> a) else !acc
let string_of_z (x : z) : string =
  if x = Z0 then "0" else begin
    let neg = (match x with Zneg _ -> true | _ -> false) in
    let v = ref (match x with Zneg p -> Zpos p | _ -> x) and buf = Buffer.create 20 and ten = z_of_int 10 in
    let ds = ref [] in
    while !v <> Z0 do
      ds := (int_of_z (Z.modulo !v ten)) :: !ds;
      v := Z.div !v ten
    done;
    if neg then Buffer.add_char buf '-';
    List.iter (fun d -> Buffer.add_char buf (Char.chr (48 + d))) !ds;
    Buffer.contents buf
  end
let bytes_of_hex (h : string) : z list =
  List.init (String.length h / 2) (fun i -> z_of_int (int_of_string ("0x" ^ String.sub h (2 * i) 2)))
let hex_of_bytes (l : z list) : string =
  String.concat "" (List.map (fun b -> Printf.sprintf "%02x" (int_of_z b land 255)) l)

let rec parse_ty (toks : string list) : ty * string list =
  match toks with
  | "b" :: r -> (TS KBool, r) | "i8" :: r -> (TS KI8, r) | "i16" :: r -> (TS KI16, r)
  | "i32" :: r -> (TS KI32, r) | "u8" :: r -> (TS KU8, r) | "u16" :: r -> (TS KU16, r)
  | "u32" :: r -> (TS KU32, r) | "i64" :: r -> (TS KI64, r) | "u64" :: r -> (TS KU64, r)
  | "en" :: r -> (TS KEnum, r) | "en8" :: r -> (TS KE8, r) | "enu8" :: r -> (TS KEU8, r)
  | "enu32" :: r -> (TS KEU32, r) | "en64" :: r -> (TS KE64, r) | "enu64" :: r -> (TS KEU64, r) | "f32" :: r -> (TS KF32, r) | "f64" :: r -> (TS KF64, r)
  | "str" :: r -> (TStr, r)
  | "(" :: "vec" :: r -> let (e, r) = parse_ty r in (TVec e, close r)
  | "(" :: "list" :: r -> let (e, r) = parse_ty r in (TList e, close r)
  | "(" :: "set" :: r -> let (e, r) = parse_ty r in (TSet e, close r)
  | "(" :: "map" :: r -> let (k, r) = parse_ty r in let (v, r) = parse_ty r in (TMap (k, v), close r)
  | "(" :: "arr" :: n :: r -> let (e, r) = parse_ty r in (TArr (nat_of_int (int_of_string n), e), close r)
  | "(" :: "up" :: r -> let (e, r) = parse_ty r in (TPtr (false, e), close r)
  | "(" :: "sp" :: r -> let (e, r) = parse_ty r in (TPtr (true, e), close r)
  | "(" :: "agg" :: r ->
    let rec fields r acc = match r with
      | ")" :: r' -> (List.rev acc, r')
      | n :: r' -> let (t, r'') = parse_ty r' in fields r'' ((z_of_string n, t) :: acc)
      | [] -> failwith "agg" in
    let (fs, r) = fields r [] in (TAgg fs, r)
  | t :: _ -> failwith ("bad type token " ^ t)
  | [] -> failwith "type expected"
and close r = match r with ")" :: r' -> r' | _ -> failwith ") expected"

let rec parse_val (toks : string list) : val0 * string list =
  match toks with
  | "[" :: r ->
    let rec items r acc = match r with
      | "]" :: r' -> (List.rev acc, r')
      | _ -> let (v, r') = parse_val r in items r' (v :: acc) in
    let (l, r) = items r [] in (VSeq l, r)
  | "N" :: r -> (VNull, r)
  | "P" :: r -> let (v, r) = parse_val r in (VSome v, r)
  | t :: r when String.length t > 0 && t.[0] = 's' -> (VStr (bytes_of_hex (String.sub t 1 (String.length t - 1))), r)
  | t :: r -> (VInt (z_of_string t), r)
  | [] -> failwith "value expected"

let rec show_val (v : val0) : string =
  match v with
  | VInt z -> string_of_z z
  | VStr b -> "s" ^ hex_of_bytes b
  | VSeq l -> "[ " ^ String.concat "" (List.map (fun x -> show_val x ^ " ") l) ^ "]"
  | VNull -> "N"
  | VSome x -> "P " ^ show_val x

let show_res (r : res) : string =
  Printf.sprintf "%d:%s" (int_of_z (res_code r)) (match res_val r with Some v -> show_val v | None -> "-")

let rec split_semi acc = function
  | ";" :: r -> (List.rev acc, r)
  | x :: r -> split_semi (x :: acc) r
  | [] -> (List.rev acc, [])

let () = iter_lines (fun line ->
  match words line with
  | id :: "E" :: rest ->
    (try
      let (tt, vt) = split_semi [] rest in
      let (t, _) = parse_ty tt in
      let (v, _) = parse_val vt in
      let bs = encode t v in
      let r0 = parse false false t bs and r1 = parse false true t bs in
      Printf.printf "%s enc=%s size=%s norm=%s rt=%s left=%d rtu=%s\n" id (hex_of_bytes bs) (string_of_z (ssize t v))
        (show_val (norm t v)) (show_res r0) (int_of_z (res_left r0)) (show_res r1)
    with Failure m -> Printf.printf "%s ERROR %s\n" id m)
  | id :: "D" :: nd :: unl :: rest ->
    (try
      let (tt, vt) = split_semi [] rest in
      let (t, _) = parse_ty tt in
      let bs = (match vt with h :: _ -> bytes_of_hex h | [] -> []) in
      let ndb = (nd = "1") in
      let r = parse ndb (unl = "1") t bs in
      (match res_val r with
       | Some v ->
         let bs2 = encode t v in
         let r2 = parse ndb false t bs2 in
         Printf.printf "%s res=%s left=%d reser=%s resize=%s norm=%s re=%s\n" id (show_res r) (int_of_z (res_left r))
           (hex_of_bytes bs2) (string_of_z (ssize t v)) (show_val (norm t v)) (show_res r2)
       | None -> Printf.printf "%s res=%s\n" id (show_res r))
    with Failure m -> Printf.printf "%s ERROR %s\n" id m
       | Stack_overflow -> Printf.printf "%s res=9:-\n" id)  (* unary nat of a huge limit: no prediction *)
  | id :: _ -> Printf.printf "%s ERROR bad-line\n" id
  | [] -> ())
