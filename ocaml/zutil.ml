(* spliced after `open <Model>` : conversions between OCaml ints/strings and the extracted
   positive / coq_N / coq_Z / nat datatypes (ExtrOcamlBasic only: numbers stay Coq datatypes). *)
let rec pos_of_int (n : int) : positive =
  if n <= 1 then XH else if n land 1 = 0 then XO (pos_of_int (n lsr 1)) else XI (pos_of_int (n lsr 1))
let rec int_of_pos (p : positive) : int =
  match p with XH -> 1 | XO q -> 2 * int_of_pos q | XI q -> 2 * int_of_pos q + 1
let z_of_int (n : int) : z = if n = 0 then Z0 else if n > 0 then Zpos (pos_of_int n) else Zneg (pos_of_int (- n))
let int_of_z (x : z) : int = match x with Z0 -> 0 | Zpos p -> int_of_pos p | Zneg p -> - (int_of_pos p)
let rec nat_of_int (n : int) : nat = if n <= 0 then O else S (nat_of_int (n - 1))
let rec int_of_nat (n : nat) : int = match n with O -> 0 | S m -> 1 + int_of_nat m
let words (s : string) : string list = List.filter (fun w -> w <> "") (String.split_on_char ' ' (String.trim s))
let iter_lines (f : string -> unit) : unit =
  try while true do f (input_line stdin) done with End_of_file -> ()
