(* stdin, two kinds of lines:
   G-lines (same as the C++ driver):  <id> <seed> <strategy> <exec> <cycles> <graph> <presets> <injects> <targets>
     prints  <id> code=<0|1> vals=<sequential value of every data: U|E|int> acts=<vertices the demand-driven
     evaluation activates> ran=<v>:<inputs>;... (the activated vertices whose processor runs, with the inputs it sees)
   D-lines:  <id> D <has_cond 0|1> <holds 0|1>
     explores every interleaving of the dependency protocol machine and prints the set of final outcomes
     notified/_ready/_waiting_num *)
let split_on c s = List.filter (fun x -> x <> "") (String.split_on_char c s)

let parse_dep (s : string) : dep =
  let essential = String.length s > 0 && s.[String.length s - 1] = '*' in
  let s = if essential then String.sub s 0 (String.length s - 1) else s in
  let idx c = try Some (String.index s c) with Not_found -> None in
  match idx '?', idx '!' with
  | Some k, _ -> { tgt = nat_of_int (int_of_string (String.sub s 0 k));
                   cnd = Some (nat_of_int (int_of_string (String.sub s (k + 1) (String.length s - k - 1))), true); ess = essential }
  | None, Some k -> { tgt = nat_of_int (int_of_string (String.sub s 0 k));
                      cnd = Some (nat_of_int (int_of_string (String.sub s (k + 1) (String.length s - k - 1))), false); ess = essential }
  | None, None -> { tgt = nat_of_int (int_of_string s); cnd = None; ess = essential }

let parse_vals (s : string) : (nat * z option) list =
  if s = "-" then [] else
  List.concat_map (fun th ->
    List.map (fun e ->
      let e = match String.index_opt e '@' with Some k -> String.sub e 0 k | None -> e in
      let k = String.index e '=' in
      let d = int_of_string (String.sub e 0 k) in
      let v = String.sub e (k + 1) (String.length e - k - 1) in
      (nat_of_int d, if v = "E" then None else Some (z_of_int (int_of_string v)))) (split_on ',' th))
    (split_on '|' s)

let show_val = function None -> "E" | Some x -> string_of_int (int_of_z x)

let graph_case id gs ps is ts =
  let vs = List.map (fun v ->
      match String.split_on_char ':' v with
      | [fl; ds; es] ->
        (fl, (if ds = "-" then [] else List.map parse_dep (split_on ',' ds)),
         (if es = "-" then [] else List.map (fun e -> nat_of_int (int_of_string e)) (split_on ',' es)))
      | _ -> failwith "bad vertex") (split_on ';' gs) in
  let g = List.map (fun (_, ds, es) -> { deps = ds; emits = es }) vs in
  let flags_arr = Array.of_list (List.map (fun (fl, _, es) -> ((String.contains fl 'f', String.contains fl 'b'), nat_of_int (List.length es))) vs) in
  let flags v = let i = int_of_nat v in if i < Array.length flags_arr then flags_arr.(i) else ((false, false), O) in
  let f = proc_fn flags in
  let pre = parse_vals ps @ parse_vals is in
  let targets = List.map (fun t -> nat_of_int (int_of_string t)) (split_on ',' ts) in
  let nd = List.fold_left (fun m (_, ds, es) ->
      List.fold_left max (List.fold_left (fun m d -> max m (max (int_of_nat d.tgt + 1)
        (match d.cnd with Some (c, _) -> int_of_nat c + 1 | None -> 0))) m ds) (List.map (fun e -> int_of_nat e + 1) es)) 0 vs in
  let nd = List.fold_left (fun m (d, _) -> max m (int_of_nat d + 1)) nd pre in
  let nd = List.fold_left (fun m t -> max m (int_of_nat t + 1)) nd targets in
  let e = sref f g pre in
  let vals = String.concat "," (List.init nd (fun d -> match e (nat_of_int d) with None -> "U" | Some x -> show_val x)) in
  let (_, acts) = needed f g pre targets in
  let acts = List.sort compare (List.map int_of_nat acts) in
  let err = expect_error f g pre targets in
  let ran = List.filter_map (fun v ->
      match vertex_res f (nat_of_int v) (List.nth g v) e with
      | VRun (ins, _) -> Some (Printf.sprintf "%d:%s" v (String.concat "," (List.map (function None -> "N" | Some x -> string_of_int (int_of_z x)) ins)))
      | _ -> None) acts in
  Printf.printf "%s code=%d vals=%s acts=%s ran=%s\n" id (if err then 1 else 0) vals
    (String.concat "," (List.map string_of_int acts)) (String.concat ";" ran)

let dep_case id hc ho =
  let c = { has_cond = (hc = "1"); holds = (ho = "1") } in
  let tids = List.map nat_of_int [0; 1; 2] in
  let (terms, nstates, ntrans, trunc) = explore (dstep c) tids (fun _ -> true) dinit 100000 in
  let outs = Hashtbl.create 16 in
  List.iter (fun s ->
      let ((n, r), w) = doutcome s in
      Hashtbl.replace outs (Printf.sprintf "%d/%d/%d%s" (int_of_nat n) (if r then 1 else 0) (int_of_z w)
                              (if ddone c s then "" else "!stuck")) ()) terms;
  let l = List.sort compare (Hashtbl.fold (fun k () acc -> k :: acc) outs []) in
  Printf.printf "%s states=%d trans=%d trunc=%b outcomes=%s\n" id nstates ntrans trunc (String.concat ";" l)

(* K-lines: <id> 0 0 K 1 <graph> - - <program>: the committer machine on data d0, d1 *)
let committer_case id prog =
  let ops = split_on ',' prog in
  let num s k = int_of_string (String.sub s k (String.length s - k)) in
  let parse o =
    let arg = (fun () -> match String.index_opt o ':', String.index_opt o '=' with
        | Some k, _ -> int_of_string (String.sub o 1 (k - 1)) | _, Some k -> int_of_string (String.sub o 1 (k - 1)) | _ -> num o 1) () in
    match o.[0] with
    | 'N' -> PNew (nat_of_int arg) | 'M' -> PMove (nat_of_int arg)
    | 'A' -> PAssign (nat_of_int arg, nat_of_int (num o (String.index o ':' + 1)))
    | 'W' -> PWrite (nat_of_int arg, z_of_int (num o (String.index o '=' + 1)))
    | 'L' -> PClear (nat_of_int arg) | 'R' -> PRelease (nat_of_int arg) | 'D' -> PDtor (nat_of_int arg)
    | 'C' -> PCancel (nat_of_int arg) | _ -> failwith "bad op" in
  let s = ref pinit in
  let pubat = [| -1; -1 |] in
  List.iteri (fun k o ->
      (match pstep !s (parse o) with Some s' -> s := s' | None -> ());
      for d = 0 to 1 do
        if pubat.(d) < 0 && int_of_nat (cells !s (nat_of_int d)).dpub >= 1 then pubat.(d) <- k
      done) ops;
  let show d =
    let c = cells !s (nat_of_int d) in
    Printf.sprintf "d%d:%s/%s/%s" d (if pubat.(d) < 0 then "-" else string_of_int pubat.(d))
      (if pubat.(d) < 0 then "-" else show_val c.dpubval) (if pubat.(d) < 0 then "-" else show_val c.dval) in
  Printf.printf "%s %s %s pmove=%b\n" id (show 0) (show 1) (pmove !s)

(* B-lines: <id> B <n>: every interleaving of run() binding n targets against n releasers of those targets *)
let bind_case id n =
  let n = int_of_string n in
  let tids = List.init (n + 1) nat_of_int in
  let (terms, nstates, ntrans, trunc) = explore bstep tids (fun _ -> true) (binit (nat_of_int n)) 2000000 in
  let early = List.exists (fun s -> bearly s) terms in
  let unfinished = List.exists (fun s -> bfin s = None || not (bfired s)) terms in
  Printf.printf "%s states=%d trans=%d trunc=%b early=%b unfinished=%b\n" id nstates ntrans trunc early unfinished

let () = iter_lines (fun line ->
  match words line with
  | [id; "B"; n] -> bind_case id n
  | [id; _; _; "K"; _; _; _; _; prog] -> committer_case id prog
  | [id; "D"; hc; ho] -> dep_case id hc ho
  | [id; _; _; _; _; gs; ps; is; ts] -> graph_case id gs ps is ts
  | _ -> ())
