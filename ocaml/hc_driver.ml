(* stdin: "<id> <mode X|S|M> <cap|D> <hashes|-> <prefill|-> <program>"   (same fields as harness/conc/c03_hash_table.cpp,
   without seed/strategy/choices).  The prefill keys are emplaced by pseudo-thread 0 run alone to completion; then every
   interleaving of the client threads is explored (states identified by HCModel.canon) and the set of outcomes is
   printed in the canonical form of the C++ driver. *)
let default_hash k = (k * 131 + 7) mod 1048576

let parse_hashes (h : string) : (int, int) Hashtbl.t =
  let tbl = Hashtbl.create 16 in
  if h <> "-" then List.iter (fun kv ->
    match String.split_on_char ':' kv with
    | [k; v] -> Hashtbl.replace tbl (int_of_string k) (int_of_string v)
    | _ -> ()) (String.split_on_char ',' h);
  tbl

let show_res (letter : char) (mode : string) (r : res) : string =
  let v_of = function Some (_, v) -> string_of_int (int_of_z v) | None -> "?" in
  match r with
  | REmp (_, _, ins, seen) ->
    if letter = 'B' && mode = "M" then "b" ^ v_of seen else (if ins then "+" else "-") ^ v_of seen
  | RFull -> "X"
  | RFind (r, seen, after) ->
    let a = if after then "^" else "" in
    if letter = 'C' then a ^ (match r with Some _ -> "1" | None -> "0")
    else a ^ (match r with Some _ -> v_of seen | None -> ".")

module KH = Hashtbl.Make (struct
  type t = Obj.t
  let equal a b = compare a b = 0
  let hash x = Hashtbl.hash_param 250 600 x
end)

let () = iter_lines (fun line ->
  match words line with
  | [id; mode; cap; hashes; prefill; prog] ->
    let htbl = parse_hashes hashes in
    let hash (k : z) : z =
      let k = int_of_z k in
      z_of_int (match Hashtbl.find_opt htbl k with Some h -> h | None -> default_hash k) in
    let letters = ref [] in
    let parse_thread t th =
      List.mapi (fun i o ->
          let key = int_of_string (String.sub o 1 (String.length o - 1)) in
          letters := ((t, i), o.[0]) :: !letters;
          match o.[0] with
          | 'F' | 'C' -> OFind (z_of_int key)
          | _ -> OEmp (z_of_int key, z_of_int (100 * (t + 1) + i)))
        (List.filter (fun x -> x <> "") (String.split_on_char ',' th)) in
    let client = List.mapi parse_thread (String.split_on_char '|' prog) in
    let pre = if prefill = "-" then [] else
        List.map (fun k -> let k = int_of_string k in OEmp (z_of_int k, z_of_int (9000 + k))) (String.split_on_char ',' prefill) in
    let progs = pre :: client in
    let capo = if cap = "D" then None else Some (z_of_int (int_of_string cap)) in
    let s0 = ref (init capo (mode <> "X") progs) in
    (* prefill: thread 0 alone *)
    let continue_ = ref true and presteps = ref 0 in
    while !continue_ do
      incr presteps;
      if !presteps > 100000 then continue_ := false   (* a prefill that spins for ever (broken formulas) *)
      else match step hash !s0 O with Some s' -> s0 := s' | None -> continue_ := false
    done;
    if !presteps > 100000 then Printf.printf "%s states=0 trans=0 trunc=false stuck=1 outcomes=PREFILL-NEVER-FINISHES\n" id else begin
    (* after the prefill the tables are re-based on arrays (same functions, O(1) reads): only speed *)
    let compact (t : ctab) : ctab =
      let n = int_of_z (cbcount t) + 16 in
      let ca = Array.init n (fun i -> t.cctrl (z_of_int i)) in
      let va = Array.init n (fun i -> t.cvals (z_of_int i)) in
      let oa = Array.init n (fun i -> t.cown (z_of_int i)) in
      let inr p = match p with Z0 -> Some 0 | Zpos _ -> let i = int_of_z p in if i < n then Some i else None | Zneg _ -> None in
      { t with cctrl = (fun p -> match inr p with Some i -> ca.(i) | None -> t.cctrl p);
               cvals = (fun p -> match inr p with Some i -> va.(i) | None -> t.cvals p);
               cown = (fun p -> match inr p with Some i -> oa.(i) | None -> t.cown p) } in
    s0 := { !s0 with tabs = List.map compact !s0.tabs };
    let nt = List.length client in
    let tids = List.init nt (fun i -> nat_of_int (i + 1)) in
    let seen = KH.create 65536 in
    let stack = Stack.create () in
    let outs = Hashtbl.create 64 in
    let ntrans = ref 0 and trunc = ref false and stuck = ref 0 in
    let keyof s = Obj.repr (Digest.string (Marshal.to_string (canon s) [Marshal.No_sharing])) in
    KH.replace seen (keyof !s0) ();
    Stack.push !s0 stack;
    let max_states = 60000 in
    while not (Stack.is_empty stack) do
      let s = Stack.pop stack in
      let enabled = ref false in
      List.iter (fun t ->
        match step hash s t with
        | None -> ()
        | Some s' ->
          incr ntrans; enabled := true;
          let key = keyof s' in
          if not (KH.mem seen key) then begin
            if KH.length seen >= max_states then trunc := true
            else begin KH.replace seen key (); Stack.push s' stack end
          end) tids;
      if not !enabled then begin
        if not (all_done s) then incr stuck;
        let ((((rs, elems), size), tabs), (((br, dc), al), fr)) = outcome s in
        let rs = List.tl rs in
        let per = String.concat "|" (List.mapi (fun t l ->
            String.concat "," (List.mapi (fun i r -> show_res (List.assoc (t, i) !letters) mode r) l)) rs) in
        let el = List.sort compare (List.map (fun (k, v) -> (int_of_z k, int_of_z v)) elems) in
        let fin = if el = [] then "-" else String.concat "," (List.map (fun (k, v) -> Printf.sprintf "%d:%d" k v) el) in
        let tb = String.concat "+" (List.map (fun (d, b) -> (if d then "d" else "") ^ string_of_int (int_of_z b)) tabs) in
        let o = Printf.sprintf "%s fin=%s size=%d tabs=%s%s" per fin (int_of_z size) tb
            ((if br then " BADREAD" else "") ^ (if dc then " DBLCONS" else "") ^
             (if int_of_nat al - int_of_nat fr <> List.length tabs - 1 then " NODELEAK" else "")) in
        Hashtbl.replace outs o ()
      end
    done;
    let l = List.sort compare (Hashtbl.fold (fun k () acc -> k :: acc) outs []) in
    Printf.printf "%s states=%d trans=%d trunc=%b stuck=%d outcomes=%s\n" id (KH.length seen) !ntrans !trunc !stuck
      (String.concat ";" l) end
  | _ -> ())
