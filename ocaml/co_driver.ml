(* stdin: "<id> <value0> <coroutines> <threads> [asis|fixed|gen [<max states>]]"   (same syntax as harness/conc/c13_coroutine.cpp, futex ops only)
     coroutines: ';'-separated "<executor>:w<x>[t],..."  ('-' = none);  threads: '|'-separated W1 WA K<i>.<j> V<x> Q<n> Y
   Explores every interleaving of the extracted model (code paths taken from the regenerated Gen file) and prints the
   set of outcomes: client results / coroutine progress at the terminal states (clients done, nothing runnable). *)
let parse_cop (o : string) : op option =
  let num s = int_of_string s in
  match o.[0] with
  | 'W' -> Some (if o = "WA" then OWakeAll else OWake1)
  | 'K' -> (match String.split_on_char '.' (String.sub o 1 (String.length o - 1)) with
            | [a; b] -> Some (OCancel (nat_of_int (num a), nat_of_int (num b))) | _ -> failwith ("bad op " ^ o))
  | 'V' -> Some (OSetV (z_of_int (num (String.sub o 1 (String.length o - 1)))))
  | 'Q' -> Some (OWaitTok (nat_of_int (num (String.sub o 1 (String.length o - 1)))))
  | 'Y' -> None
  | _ -> failwith ("bad op " ^ o)

let parse_wait (o : string) : z * bool =
  if o.[0] <> 'w' then failwith ("not a futex wait: " ^ o);
  let tok = o.[String.length o - 1] = 't' in
  let n = String.length o - 1 - (if tok then 1 else 0) in
  (z_of_int (int_of_string (String.sub o 1 n)), tok)

let nonempty l = List.filter (fun x -> x <> "" && x <> "-") l

let show_res (r : res) : string =
  match r with
  | RW1 z -> string_of_int (int_of_z z) | RWA z -> string_of_int (int_of_z z)
  | RK None -> "-" | RK (Some b) -> if b then "1" else "0" | RV -> "v" | RQ -> "q"

let () = iter_lines (fun line ->
  let ws = words line in
  let (ws, cap) = match ws with
    | [a; b; c; d; e; n] -> ([a; b; c; d; e], int_of_string n)
    | _ -> (ws, 3000000) in
  let (ws, cfg) = match ws with
    | [a; b; c; d; "asis"] -> ([a; b; c; d], cfg_asis)
    | [a; b; c; d; "fixed"] -> ([a; b; c; d], cfg_fixed)
    | [a; b; c; d; _] -> ([a; b; c; d], gen_cfg)
    | _ -> (ws, gen_cfg) in
  match ws with
  | [id; v0; cs; ts] ->
    let kps = List.map (fun c ->
        match String.split_on_char ':' c with
        | [e; ops] -> (nat_of_int (int_of_string e), List.map parse_wait (nonempty (String.split_on_char ',' ops)))
        | _ -> failwith ("bad coroutine " ^ c)) (nonempty (String.split_on_char ';' cs)) in
    let raw_threads = if ts = "-" then [] else String.split_on_char '|' ts in
    (* 'Y' has no model counterpart: results are compared with the y's removed *)
    let cps = List.map (fun th -> List.filter_map parse_cop (nonempty (String.split_on_char ',' th))) raw_threads in
    let s0 = init (z_of_int (int_of_string v0)) cps kps in
    let nt = List.length cps + List.length kps in
    let tids = List.init nt nat_of_int in
    let (terms, nstates, ntrans, trunc) = explore (step cfg) tids (fun _ -> true) s0 cap in
    let outs = Hashtbl.create 64 in
    let stuck = ref 0 and badn = ref 0 in
    List.iter (fun s ->
      if not (all_clients_done s) then incr stuck;
      if int_of_nat (bad s) > 0 then incr badn;
      let (rs, pr) = outcome s in
      let o = (if rs = [] then "-" else String.concat "|" (List.map (fun l -> String.concat "," (List.map show_res l)) rs)) ^ " / " ^
              (if pr = [] then "-" else String.concat "," (List.map (fun (j, d) -> string_of_int (int_of_nat j) ^ (if d then "d" else "s")) pr)) ^
              (if all_clients_done s then "" else " STUCK") in
      Hashtbl.replace outs o ()) terms;
    let l = List.sort compare (Hashtbl.fold (fun k () acc -> k :: acc) outs []) in
    Printf.printf "%s states=%d trans=%d trunc=%b stuck=%d bad=%d outcomes=%s\n" id nstates ntrans trunc !stuck !badn
      (String.concat ";" l)
  | _ -> ())
