(* stdin: one case per line  "<id> <type> <hash kind> <ctorA> <ctorB> <op> <op> ..."
   ctor: d (default) | <n>;  ops: e<k>:<v> f<k> s i c r<n> h<n> ab ba mv sw
   prints "<id> <per-op observations> # dummy_chain_at=<i> maxchain=<n>": the part before " # " is the same canonical
   line as harness/seq/c18_hash_table.cpp prints; dummy_chain_at = index of the first op after which a container has a
   placeholder (default-constructed) head with tables chained behind it (-1 never; coverage statistic only),
   maxchain = longest chain.
   hash kinds (keys are < 2^20): 0 identity, 1 k mod 3, 2 k*128 (checker always 0), 3 k mod 128 (base always 0),
   4 (k * 2654435761) mod 2^32, 5 constant 0 *)
let hash_of kind : z -> z = fun k ->
  let n = int_of_z k in
  z_of_int (match kind with
    | 0 -> n
    | 1 -> n mod 3
    | 2 -> n * 128
    | 3 -> n mod 128
    | 4 -> (n * 2654435761) land 0xFFFFFFFF
    | _ -> 0)

let ctor s = if s = "d" then None else Some (z_of_int (int_of_string s))

let parse_op w =
  let rest = String.sub w 1 (String.length w - 1) in
  match w with
  | "s" -> Size | "i" -> Iterate | "c" -> Clear | "ab" -> CopyAB | "ba" -> CopyBA | "mv" -> MoveBA | "sw" -> Swap
  | _ ->
    match w.[0] with
    | 'e' -> (match String.split_on_char ':' rest with
              | [k; v] -> Emplace (z_of_int (int_of_string k), z_of_int (int_of_string v))
              | _ -> failwith ("bad op " ^ w))
    | 'f' -> Find (z_of_int (int_of_string rest))
    | 'r' -> Reserve (z_of_int (int_of_string rest))
    | 'h' -> Rehash (z_of_int (int_of_string rest))
    | _ -> failwith ("bad op " ^ w)

let show_elem (k, v) = Printf.sprintf "%d:%d" (int_of_z k) (int_of_z v)
let show_opt = function None -> "-" | Some e -> show_elem e

let () = iter_lines (fun line ->
  match words line with
  | id :: _ty :: hk :: ca :: cb :: ops ->
    let h = hash_of (int_of_string hk) in
    let st = ref (init (ctor ca) (ctor cb)) in
    let buf = Buffer.create 256 in
    let dummy_chain_at = ref (-1) and maxchain = ref 0 and opi = ref 0 in
    let look (c : chain) =
      let n = List.length c.rest in
      if n > !maxchain then maxchain := n;
      if c.head.dummy && n > 0 && !dummy_chain_at < 0 then dummy_chain_at := !opi in
    List.iter (fun w ->
      let o = parse_op w in
      let (s', out) = step h !st o in
      st := s';
      let (a, b) = s' in
      look a; look b; incr opi;
      let obs = match out with
        | OEmplace (ins, x, stuck) -> Printf.sprintf "e%d%s=%s" (if ins then 1 else 0) (if stuck then "!" else "") (show_opt x)
        | OFind x -> "f=" ^ show_opt x
        | OSize n -> Printf.sprintf "s=%d" (int_of_z n)
        | OIter None -> "i=DIVERGES"
        | OIter (Some l) ->
          let l = List.sort compare (List.map (fun (k, v) -> (int_of_z k, int_of_z v)) l) in
          "i=" ^ String.concat "," (List.map (fun (k, v) -> Printf.sprintf "%d:%d" k v) l)
        | OUnit -> Printf.sprintf "%s:b%d" w (int_of_z (bcount a.head)) in
      Buffer.add_char buf ' '; Buffer.add_string buf obs) ops;
    Printf.printf "%s%s # dummy_chain_at=%d maxchain=%d\n" id (Buffer.contents buf) !dummy_chain_at !maxchain
  | _ -> ())
