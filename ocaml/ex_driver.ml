(* stdin: "<id> <workers> <global-cap> <local-cap> <steal 0/1> <balance-us (0 = unset)> <bodies> <threads>"
   bodies: ';'-separated, "-" or children "a.b.c";  threads: '|'-separated, ops ',' : s<id> W X D J.
   Prints every outcome the model admits over all schedules. *)
let parse_op (o : string) : op =
  match o.[0] with
  | 's' -> OSubmit (nat_of_int (int_of_string (String.sub o 1 (String.length o - 1))))
  | 'W' -> OWake | 'X' | 'D' -> OStop | 'J' -> OJoinExt
  | _ -> failwith ("bad op " ^ o)

let () = iter_lines (fun line ->
  match words line with
  | id :: nw :: gc :: lc :: steal :: bal :: bodies :: thr :: blk ->
    (* optional 9th field: storage blocks of the local queues, blocks '/', workers '.', e.g. 0/1 *)
    let blocks_spec = match blk with
      | [b] -> List.map (fun x -> List.map (fun y -> nat_of_int (int_of_string y))
                           (List.filter (fun y -> y <> "") (String.split_on_char '.' x))) (String.split_on_char '/' b)
      | _ -> [List.init (int_of_string nw) nat_of_int] in
    let bodies = List.map (fun b -> if b = "-" then [] else
                             List.map (fun x -> nat_of_int (int_of_string x)) (List.filter (fun x -> x <> "") (String.split_on_char '.' b)))
        (String.split_on_char ';' bodies) in
    let progs = List.map (fun th -> List.map parse_op (List.filter (fun x -> x <> "") (String.split_on_char ',' th)))
        (String.split_on_char (Char.chr 124) thr) in
    let bal = int_of_string bal in
    let cfg = { nworkers = nat_of_int (int_of_string nw); gcap = z_of_int (int_of_string gc);
                lcap = z_of_int (int_of_string lc); stealing = z_of_int (int_of_string steal);
                interval = z_of_int (if bal > 0 then bal else -1); bodies = bodies;
                blocks = blocks_spec } in
    let s0 = init cfg progs in
    let nt = List.length (threads s0) in
    let tids = List.init nt nat_of_int in
    let (terms, nstates, ntrans, trunc) = explore (step cfg) tids (fun _ -> true) s0 400000 in
    let outs = Hashtbl.create 64 in
    let deadlocks = ref 0 in
    List.iter (fun s ->
      if not (all_done s) then incr deadlocks;
      let ((run, norun), late) = outcome s in
      let show l = String.concat "," (List.map (fun n -> string_of_int (int_of_nat n)) l) in
      let o = Printf.sprintf "run=%s norun=%s late=%d%s" (show run) (show (List.sort compare norun)) (int_of_nat late)
          (if all_done s then "" else " STUCK") in
      Hashtbl.replace outs o ()) terms;
    let l = List.sort compare (Hashtbl.fold (fun k () acc -> k :: acc) outs []) in
    Printf.printf "%s states=%d trans=%d trunc=%b deadlocks=%d outcomes=%s\n" id nstates ntrans trunc !deadlocks
      (String.concat ";" l)
  | _ -> ())
