(* stdin: "<id> <P> <op> ..." ; ops: A:b:a:o1:o2:ou  G:ptr:fn:o1:o2:ou  C:ptr  R  M  K
   stdout: "<id> <segment> ; <segment> ..." one segment per op (same text as harness/seq/c06_memory_resource.cpp) *)
let zi = z_of_int
let iz = int_of_z
let parse_op (w : string) : op =
  match String.split_on_char ':' w with
  | ["A"; b; a; x; y; u] ->
    Alloc (zi (int_of_string b), zi (int_of_string a),
           { o1 = zi (int_of_string x); o2 = zi (int_of_string y); ou = zi (int_of_string u) })
  | ["G"; p; f; x; y; u] ->
    Reg (zi (int_of_string p), zi (int_of_string f),
         { o1 = zi (int_of_string x); o2 = zi (int_of_string y); ou = zi (int_of_string u) })
  | ["C"; p] -> Contains (zi (int_of_string p))
  | ["R"] -> Release
  | ["M"] -> MoveAssign
  | ["K"] -> MoveCtor
  | _ -> failwith ("bad op " ^ w)
let lst l = "[" ^ String.concat "," (List.map (fun x -> string_of_int (iz x)) l) ^ "]"
let ev_str (e : ev) : string option =
  match e with
  | EPageAlloc p -> Some (Printf.sprintf "pa%d" (iz p))
  | EUpAlloc (u, p, b, a) -> Some (Printf.sprintf "ua%d:%d:%d:%d" (iz u) (iz p) (iz b) (iz a))
  | EDtor (p, f) -> Some (Printf.sprintf "dt%d:%d" (iz p) (iz f))
  | EPageFree ps -> Some ("pf" ^ String.concat "+" (List.map (fun x -> string_of_int (iz x)) ps))
  | EUpFree (u, p, b, a) -> Some (Printf.sprintf "uf%d:%d:%d:%d" (iz u) (iz p) (iz b) (iz a))
  | EWrite (_, _) -> None
let () = iter_lines (fun line ->
  match words line with
  | id :: ps :: ops ->
    let p = zi (int_of_string ps) in
    let outs = observe p init (List.map parse_op ops) in
    let seg ((res, evs), ((((((fb, fe), u), a), (pt, pa)), (ot, oa)), (dt, da))) =
      Printf.sprintf "r=%d fb=%d fe=%d u=%d a=%d pt=%d pa=%s ot=%d oa=%s dt=%d da=%s ev=%s"
        (iz res) (iz fb) (iz fe) (iz u) (iz a) (iz pt) (lst pa) (iz ot) (lst oa) (iz dt) (lst da)
        (String.concat "," (List.filter_map ev_str evs)) in
    Printf.printf "%s %s\n" id (String.concat " ; " (List.map seg outs))
  | _ -> ())
