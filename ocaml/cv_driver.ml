(* stdin: "<id> <bits> <t0> <program>"  program: threads '|', ops ',' :
   E<i> R<n> I<i> Z S G<i> F<b>-<e> (also L, P) C A<sec> W<+-sec> (calendar clock step).
   Prints every outcome the model admits over all schedules, blocks numbered by first appearance, plus
   whether some schedule reaches a stale retire stamp / a read of a freed table, and the end-of-life check. *)
let parse_op (o : string) : op =
  let n = String.length o in
  let num s = z_of_int (int_of_string s) in
  let arg () = num (String.sub o 1 (n - 1)) in
  let two () = match String.split_on_char '-' (String.sub o 1 (n - 1)) with
    | [a; b] -> (num a, num b) | _ -> failwith ("bad range " ^ o) in
  match o.[0] with
  | 'E' -> OEnsure (arg ()) | 'R' -> OReserve (arg ()) | 'I' -> OIndex (arg ()) | 'Z' -> OSize | 'S' -> OSnap
  | 'G' -> OSnapGet (arg ()) | 'F' | 'L' | 'P' -> let (a, b) = two () in OForEach (a, b)
  | 'C' -> OGc | 'A' -> OAdv (arg ()) | 'W' -> OStep (arg ())
  | _ -> failwith ("bad op " ^ o)

let show_outcome (rs : res list list) : string =
  let canon = Hashtbl.create 16 in
  let cb (b : nat) = let k = int_of_nat b in
    (match Hashtbl.find_opt canon k with Some c -> c | None -> let c = Hashtbl.length canon in Hashtbl.replace canon k c; c) in
  let show_res (r : res) : string =
    match r with
    | RElem None -> "e-"
    | RElem (Some (b, o)) -> let c = cb b in Printf.sprintf "e%d.%d" c (int_of_z o)
    | RUnit -> "u"
    | RSize n -> "z" ^ string_of_int (int_of_z n)
    | RSegs l -> "s" ^ String.concat "+" (List.map (fun ((b, lo), hi) -> let c = cb b in
                        Printf.sprintf "%d:%d-%d" c (int_of_z lo) (int_of_z hi)) l)
    | RUaf -> "X" in
  (* explicit left-to-right evaluation: numbering by first appearance in thread order, op order *)
  let buf = Buffer.create 64 in
  List.iteri (fun ti l ->
    if ti > 0 then Buffer.add_char buf '|';
    List.iteri (fun oi r -> if oi > 0 then Buffer.add_char buf ','; Buffer.add_string buf (show_res r)) l) rs;
  Buffer.contents buf

let rec all_ones (l : nat list) = match l with [] -> true | x :: r -> int_of_nat x = 1 && all_ones r

(* whole-object model: "<id> OBJ <block> <script>", script ops ',' separated: D<v> N<v>.<k> G<v>.<i> M<d>.<s> A<d>.<s>
   X<a>.<b> K<v> T<v> (ignored).  Prints the same objs= summary as the C++ driver. *)
let parse_oop (hint : int) (o : string) : oop list =
  let n = String.length o in
  if n < 2 then [] else
  let a = nat_of_int (Char.code o.[1] - Char.code '0') in
  let b () = match String.index_opt o '.' with
    | Some i -> int_of_string (String.sub o (i + 1) (n - i - 1)) | None -> 0 in
  match o.[0] with
  | 'D' -> [QCreate (a, z_of_int 1, z_of_int hint)]
  | 'N' -> [QCreate (a, z_of_int (b ()), z_of_int hint)]
  | 'G' -> [QEnsure (a, z_of_int (b ()))]
  | 'M' -> [QMoveCtor (a, nat_of_int (b ()))]
  | 'A' -> [QMoveAssign (a, nat_of_int (b ()))]
  | 'X' -> [QSwap (a, nat_of_int (b ()))]
  | 'K' -> [QDestroy a]
  | _ -> []

let show_objs (s : ost) : string =
  let (slots, (nb, nk)) = oview s in
  let one x = match x with
    | None -> "-"
    | Some ((((bs, n), c), tags), rl) ->
      Printf.sprintf "%d:%d:%d:%s:%d" (int_of_z bs) (int_of_nat n) (int_of_z c)
        (String.concat "." (List.map (fun t -> string_of_int (int_of_z t)) tags)) (int_of_nat rl) in
  Printf.sprintf "%s,nb=%d,nk=%d" (String.concat "/" (List.map one slots)) (int_of_nat nb) (int_of_nat nk)

let run_obj (id : string) (block : string) (script : string) : unit =
  let v = int_of_string (String.sub block 1 (String.length block - 1)) in
  let static_bs = if block.[0] = 's' then v else 0 in
  let ops = List.concat_map (parse_oop v) (List.filter (fun x -> x <> "") (String.split_on_char ',' script)) in
  let s = orun (oinit (z_of_int static_bs) (nat_of_int 4)) ops in
  Printf.printf "%s objs=%s\n" id (show_objs s)

let () = iter_lines (fun line ->
  match words line with
  | [id; "OBJ"; block; script] -> run_obj id block script
  | [id; b; t0; prog] ->
    let progs = List.map (fun th -> List.map parse_op (List.filter (fun x -> x <> "") (String.split_on_char ',' th)))
        (String.split_on_char '|' prog) in
    let nt = List.length progs in
    let s0 = init (z_of_int (int_of_string b)) (z_of_int (int_of_string t0)) progs in
    let tids = List.init nt nat_of_int in
    let (terms, nstates, ntrans, trunc) = explore step tids (fun _ -> true) s0 1500000 in
    let outs = Hashtbl.create 64 in
    let stale_reach = ref false and uaf_reach = ref false and death_ok = ref true and stuck = ref 0 and cool_ok = ref true in
    List.iter (fun s ->
      if not (all_done s) then incr stuck;
      if stale s then stale_reach := true;
      if uaf s <> [] then uaf_reach := true;
      if not (stale s) && List.exists (fun ((_, l), c) -> int_of_z c - int_of_z l <= 64) (uaf s) then cool_ok := false;
      let d = destroy s in
      if not (all_ones (bctor d) && all_ones (bdtor d)
              && List.for_all (fun ti -> int_of_nat ti.tfrees = 1) (List.tl (tables d))) then death_ok := false;
      let (rs, ((((nb, nd), ntab), nfreed), nl)) = outcome s in
      let o = Printf.sprintf "%s blocks=%d bdead=%d tables=%d tfreed=%d rlist=%d" (show_outcome rs) (int_of_nat nb)
          (int_of_nat nd) (int_of_nat ntab) (int_of_nat nfreed) (int_of_nat nl) in
      Hashtbl.replace outs o ()) terms;
    let l = List.sort compare (Hashtbl.fold (fun k () acc -> k :: acc) outs []) in
    Printf.printf "%s states=%d trans=%d trunc=%b stuck=%d stale=%b uaf=%b death=%b cool=%b outcomes=%s\n" id nstates ntrans trunc
      !stuck !stale_reach !uaf_reach !death_ok !cool_ok (String.concat ";" l)
  | _ -> ())
