(* stdin: "<id> <slot-bits> <tick-bound> <max-states> <program>"   program: threads '|', ops ',' :
     P<cwk>:<v>  push      O<cwk>  pop       p<cwk>:<v>  try_push    o<cwk>  try_pop
     N<cwk>:<v;v;..> push_n   M<cwk>:<n> pop_n   n<cwk>:<v;..> try_push_n   m<cwk>:<n> try_pop_n
     U<cwk>:<n>:<tmo> try_pop_n_exclusively_until       (c,w,k = CONCURRENT, USE_FUTEX_WAIT, USE_FUTEX_WAKE as 0/1)
   an optional letter after the flags names the public overload the client calls (default: the callback overload with
   template arguments): v value / reference, q pointer, i iterators, d callback without template arguments, e value
   without template arguments, r pointer without template arguments, j iterators without template arguments.  The machine
   runs `lower` of every call (flags after all forwarding wrappers, regenerated from the source).
   Prints every outcome the model admits (all schedules, clock ticks up to the bound). *)
let parse_flags (s : string) : flags = { conc = s.[0] = '1'; fwait = s.[1] = '1'; fwake = s.[2] = '1' }
let parse_entry (hd : string) : entry =
  if String.length hd < 5 then EnCb else
  match hd.[4] with
  | 'v' -> EnVal | 'q' -> EnPtr | 'i' -> EnIt | 'd' -> EnDefCb | 'e' -> EnDefVal | 'r' -> EnDefPtr | 'j' -> EnDefIt
  | c -> failwith ("bad entry " ^ String.make 1 c)
let parse_op (o : string) : call =
  let parts = String.split_on_char ':' o in
  let hd = List.hd parts in
  let mk (x : op) : call = { c_entry = parse_entry hd; c_op = x } in
  mk @@
  let f = parse_flags (String.sub hd 1 3) in
  let arg k = List.nth parts k in
  let zs s = List.map (fun x -> z_of_int (int_of_string x)) (List.filter (fun x -> x <> "") (String.split_on_char ';' s)) in
  match hd.[0] with
  | 'P' -> OPush (f, z_of_int (int_of_string (arg 1)))
  | 'O' -> OPop f
  | 'p' -> OTryPush (f, z_of_int (int_of_string (arg 1)))
  | 'o' -> OTryPop f
  | 'N' -> OPushN (f, zs (if List.length parts > 1 then arg 1 else ""))
  | 'M' -> OPopN (f, nat_of_int (int_of_string (arg 1)))
  | 'n' -> OTryPushN (f, zs (if List.length parts > 1 then arg 1 else ""))
  | 'm' -> OTryPopN (f, nat_of_int (int_of_string (arg 1)))
  | 'U' -> OPopUntil (f, nat_of_int (int_of_string (arg 1)), z_of_int (int_of_string (arg 2)))
  | _ -> failwith ("bad op " ^ o)

let show_res (r : res) : string =
  string_of_int (int_of_nat r.r_cnt) ^
  (match r.r_vals with [] -> "" | l -> ":" ^ String.concat "." (List.map (fun v -> string_of_int (int_of_z v)) l))

let () = iter_lines (fun line ->
  match words line with
  | [id; k; bound; maxst; prog] ->
    let cprogs = List.map (fun th -> List.map parse_op (List.filter (fun x -> x <> "") (String.split_on_char ',' th)))
        (String.split_on_char '|' prog) in
    let progs = lower_progs cprogs in
    let nt = List.length progs in
    let bound = int_of_string bound in
    let kk = nat_of_int (int_of_string k) in
    let s0 = init kk progs in
    let tick = nat_of_int nt in
    let step' s t = if t = tick && int_of_z (clock s) >= bound then None else if spin_idle s t then None else step s t in
    let tids = List.init (nt + 1) nat_of_int in
    let (terms, nstates, ntrans, trunc) = explore step' tids (fun t -> t <> tick) s0 (int_of_string maxst) in
    let outs = Hashtbl.create 64 in
    let deadlocks = ref 0 and errs = ref 0 and lost = ref 0 in
    List.iter (fun s ->
      if (int_of_z (clock s) >= bound || all_done s) && not (has_timed_parked s) then begin
        if not (all_done s) then incr deadlocks;
        if err s then incr errs;
        (* conservation on the ghost lists: every delivered pair was pushed *)
        if not (List.for_all (fun d -> List.mem d (pushed s)) (delivered s)) then incr lost;
        let o = String.concat "|" (List.map (fun l -> String.concat "," (List.map show_res l)) (outcome s)) ^
                (if all_done s then "" else "#STUCK") in
        Hashtbl.replace outs o ()
      end) terms;
    let l = List.sort compare (Hashtbl.fold (fun k () acc -> k :: acc) outs []) in
    (* usage = the documented pairing rules on the calls as written; wrappers = every call is a real overload, the
       forwarded flags leave the rules intact and the cores pass their own role *)
    Printf.printf "%s states=%d trans=%d trunc=%b deadlocks=%d errs=%d lost=%d usage=%b wrappers=%b outcomes=%s\n" id nstates ntrans trunc
      !deadlocks !errs !lost (usage_ok kk (declared cprogs)) (calls_ok cprogs && cores_ok && usage_ok kk progs) (String.concat ";" l)
  | _ -> ())
