(* stdin: "<id> <tail> <vmod> <setup> <program>"   setup: ops of a thread that runs alone first ("-" = none);
   program: threads '|', ops ',' :  A allocate | F<i> deallocate i-th kept id | E emplace | T<k> take_released k-th
   issued id | R finish_released | K<h>.<k> holder[h] = box.take(k-th id) | M<h>.<g> holder[h] = std::move(holder[g]) |
   C<h>.<g> construct holder[h] from std::move(holder[g]) | D<h> destroy holder[h].  Prints every outcome the model admits over all schedules of the program threads. *)
let parse_op (o : string) : op =
  let rest = String.sub o 1 (String.length o - 1) in
  let arg () = nat_of_int (int_of_string rest) in
  let two () = match String.split_on_char '.' rest with
    | [a; b] -> (nat_of_int (int_of_string a), nat_of_int (int_of_string b)) | _ -> failwith ("bad op " ^ o) in
  match o.[0] with
  | 'A' -> OAlloc | 'F' -> OFree (arg ()) | 'E' -> OEmplace | 'T' -> OTake (arg ()) | 'R' -> OFinish
  | 'K' -> let (h, k) = two () in OAcTake (h, k) | 'M' -> let (h, g) = two () in OAcMove (h, g)
  | 'C' -> let (h, g) = two () in OAcCtor (h, g) | 'D' -> OAcDrop (arg ())
  | _ -> failwith ("bad op " ^ o)

let show_res (r : res) : string =
  match r with
  | RId (v, k) -> Printf.sprintf "%d@%d" (int_of_z v) (int_of_z k)
  | REmp (v, k) -> Printf.sprintf "%d@%d" (int_of_z v) (int_of_z k)
  | RFree -> "f" | RFin -> "r" | RSkip -> "-" | RAcc -> "a"
  | RTake b -> if b then "1" else "0"

let parse_thread (th : string) : op list =
  if th = "-" then [] else List.map parse_op (List.filter (fun x -> x <> "") (String.split_on_char ',' th))

let show_outcome (c : cfg) (s : st) : string =
  let ((rs, lv), e) = outcome c s in
  String.concat "|" (List.map (fun l -> String.concat "," (List.map show_res l)) rs) ^ " live=" ^
  String.concat "," (List.map (fun v -> string_of_int (int_of_z v)) lv) ^ " end=" ^ string_of_int (int_of_z e)

let () = iter_lines (fun line ->
  match words line with
  | [id; tl; vm; setup; prog] ->
    let c = { tail = z_of_int (int_of_string tl); vmod = z_of_int (int_of_string vm) } in
    let progs = parse_thread setup :: List.map parse_thread (String.split_on_char '|' prog) in
    let nt = List.length progs in
    let s0 = ref (init c progs) in
    (* the setup thread runs to completion alone *)
    let continue = ref true in
    while !continue do
      match step c !s0 O with Some s' -> s0 := s' | None -> continue := false
    done;
    let tids = List.init (nt - 1) (fun i -> nat_of_int (i + 1)) in
    (* property-level observers on the model itself: a transition on which the head version decreases ("version bumped on
       every push"), terminal states in which a value has two holders or emplace handed out one id twice *)
    let regress = ref 0 in
    let step' s t = match step c s t with
      | Some s' -> if int_of_z s'.sh.hk < int_of_z s.sh.hk then incr regress; Some s'
      | None -> None in
    let (terms, nstates, ntrans, trunc) = explore step' tids (fun _ -> true) !s0 3000000 in
    let has_dup l = List.length (List.sort_uniq compare l) <> List.length l in
    let dupheld = List.length (List.filter (fun s -> has_dup (List.map int_of_z (held_values s))) terms) in
    let dupids = List.length (List.filter (fun s ->
        has_dup (List.map (fun (v, k) -> (int_of_z v, int_of_z k)) s.sh.ids)) terms) in
    let outs = Hashtbl.create 64 in
    let bad = ref 0 in
    List.iter (fun s ->
      if not (all_done s) then incr bad;
      Hashtbl.replace outs (show_outcome c s) ()) terms;
    let l = List.sort compare (Hashtbl.fold (fun k () acc -> k :: acc) outs []) in
    Printf.printf "%s states=%d trans=%d trunc=%b stuck=%d regress=%d dupheld=%d dupids=%d outcomes=%s\n" id nstates ntrans
      trunc !bad !regress dupheld dupids
      (String.concat ";" l)
  | _ -> ())
