(* stdin: "<id> <program>"  program: threads '|', ops ',' :  P N<k> C<k> c L<k> X Z S B  (see harness/conc/c15_topic.cpp).
   Item values are (thread+1)*100000 + (op index+1)*1000 + k, as in the C++ driver.
   Prints every outcome the model admits over all schedules. *)
let parse_op (t : int) (i : int) (o : string) : op =
  let arg () = int_of_string (String.sub o 1 (String.length o - 1)) in
  let base = (t + 1) * 100000 + (i + 1) * 1000 in
  match o.[0] with
  | 'P' -> OPub [z_of_int base]
  | 'N' -> OPub (List.init (arg ()) (fun k -> z_of_int (base + k)))
  | 'C' -> OConsume (nat_of_int (arg ()))
  | 'c' -> OConsume (nat_of_int 1)
  | 'L' -> OLoop (nat_of_int (arg ()))
  | 'X' -> OClose | 'Z' -> OClear | 'S' -> OSub | 'B' -> OBarrier
  | _ -> failwith ("bad op " ^ o)

let show_res (r : res) : string =
  match r with
  | RDone -> "" | REnd -> "E"
  | RGot vs -> "[" ^ String.concat "." (List.map (fun v -> string_of_int (int_of_z v)) vs) ^ "]"

let () = iter_lines (fun line ->
  match words line with
  | [id; prog] ->
    let texts = List.map (fun th -> List.filter (fun x -> x <> "") (String.split_on_char ',' th)) (String.split_on_char '|' prog) in
    let progs = List.mapi (fun t th -> List.mapi (fun i o -> parse_op t i o) th) texts in
    let nt = List.length progs in
    let s0 = init progs in
    let tids = List.init nt nat_of_int in
    let (terms, nstates, ntrans, trunc) = explore step tids (fun _ -> true) s0 3000000 in
    let outs = Hashtbl.create 64 in
    let deadlocks = ref 0 and misused = ref 0 in
    List.iter (fun s ->
      if misuse s then incr misused;
      if not (all_done s) then incr deadlocks;
      let rs = outcome s in
      let show_thread (text : string list) (r : (nat * res) list) =
        String.concat "," (List.mapi (fun i o ->
          let mine = List.filter (fun (j, _) -> int_of_nat j = i) r in
          let body = String.concat "" (List.map (fun (_, x) -> show_res x) mine) in
          match o.[0] with
          | 'C' | 'c' | 'L' -> body
          | ch -> if mine = [] then "" else String.make 1 ch) text) in
      let o = String.concat "|" (List.map2 show_thread texts rs) ^ (if all_done s then "" else " STUCK") in
      Hashtbl.replace outs o ()) terms;
    let l = List.sort compare (Hashtbl.fold (fun k () acc -> k :: acc) outs []) in
    Printf.printf "%s states=%d trans=%d trunc=%b deadlocks=%d misuse=%d outcomes=%s\n" id nstates ntrans trunc !deadlocks !misused
      (String.concat ";" l)
  | _ -> ())
