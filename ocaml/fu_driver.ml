(* stdin: "<id> <latch-count> <tick-bound> <program>"  program: threads '|', ops ',' :
   S G W<k> F R D<k>.  Prints every outcome the model admits (all schedules, clock ticks up to the bound). *)
let parse_op (o : string) : op =
  let arg () = z_of_int (int_of_string (String.sub o 1 (String.length o - 1))) in
  match o.[0] with
  | 'S' -> OSet | 'G' -> OGet | 'W' -> OWait (arg ()) | 'F' -> OFin | 'R' -> OReady | 'D' -> ODown (arg ())
  | _ -> failwith ("bad op " ^ o)

let show_res (r : res) : string =
  match r with
  | RSet -> "S" | RGet b -> if b then "G1" else "G0"
  | RWait (r, _, _, _, _) -> if r then "W1" else "W0"
  | RFin -> "F" | RReady b -> if b then "R1" else "R0" | RDown -> "D"

let () = iter_lines (fun line ->
  match words line with
  | [id; latch; bound; prog] ->
    let progs = List.map (fun th -> List.map parse_op (List.filter (fun x -> x <> "") (String.split_on_char ',' th)))
        (String.split_on_char '|' prog) in
    let nt = List.length progs in
    let bound = int_of_string bound in
    let s0 = init (z_of_int (int_of_string latch)) progs in
    let tick = nat_of_int nt in
    let step' s t = if t = tick && int_of_z (clock s) >= bound then None else step s t in
    let tids = List.init (nt + 1) nat_of_int in
    let (terms, nstates, ntrans, trunc) = explore step' tids (fun t -> t <> tick) s0 2000000 in
    let outs = Hashtbl.create 64 in
    let deadlocks = ref 0 in
    List.iter (fun s ->
      (* a terminal state where the clock can still advance is not final *)
      (* a thread parked in a timed wait whose deadline lies beyond the tick bound is an artefact of the bound *)
      if (int_of_z (clock s) >= bound || all_done s) && not (has_timed_parked s) then begin
        if not (all_done s) then incr deadlocks;
        let (rs, ran) = outcome s in
        let o = String.concat "|" (List.map (fun l -> String.concat "," (List.map show_res l)) rs) ^ " ran=" ^
                String.concat "," (List.map (fun (a, b) -> Printf.sprintf "%d.%d" (int_of_nat a) (int_of_nat b)) ran) ^
                (if all_done s then "" else " STUCK") in
        Hashtbl.replace outs o ()
      end) terms;
    let l = List.sort compare (Hashtbl.fold (fun k () acc -> k :: acc) outs []) in
    Printf.printf "%s states=%d trans=%d trunc=%b deadlocks=%d outcomes=%s\n" id nstates ntrans trunc !deadlocks
      (String.concat ";" l)
  | _ -> ())
