(* stdin: "<id> <slot-bits> <machine: src|fixed> <program>"   program: threads '|', ops ',' :
     R retire   L lock (own accessor)   U unlock   B start   S stop   W wait for the other client threads
   Explores every interleaving of the extracted GCModel machine (client threads + collector thread) and prints
   the set of admissible outcomes:  per-thread results ' calls=' reclaimer calls in order with the slots open at
   the call.  A terminal state in which some client thread is not finished is printed with the suffix STUCK. *)
let parse_op (o : string) : op =
  match o.[0] with
  | 'R' -> ORetire | 'L' -> OLock | 'U' -> OUnlock | 'B' -> OStart | 'S' -> OStop | 'W' -> OWait
  | _ -> failwith ("bad op " ^ o)

let show_res (r : res) : string =
  match r with
  | RRetire _ -> "R" | RLock -> "L" | RUnlock -> "U" | RSkip -> "-"
  | RWait -> "W"
  | RStart b -> if b then "B1" else "B0"
  | RStop (j, _, n) -> Printf.sprintf "S%d:%d" (if j then 1 else 0) (int_of_nat n)

let show_outcome s =
  let (rs, cl) = outcome s in
  String.concat "|" (List.map (fun l -> String.concat "," (List.map show_res l)) rs) ^ " calls=" ^
  String.concat "," (List.map (fun ((a, b), opens) ->
      Printf.sprintf "%d.%d@%s" (int_of_nat a) (int_of_nat b)
        (String.concat "." (List.map (fun x -> string_of_int (int_of_nat x)) opens))) cl)

let () = iter_lines (fun line ->
  match words line with
  | [id; bits; mach; prog] ->
    let progs = List.map (fun th -> List.map parse_op (List.filter (fun x -> x <> "") (String.split_on_char ',' th)))
        (String.split_on_char '|' prog) in
    let nt = List.length progs in
    let s0 = init (nat_of_int (int_of_string bits)) progs in
    let stp = if mach = "fixed" then step_fixed else step in
    let tids = List.init (nt + 1) nat_of_int in
    let (terms, nstates, ntrans, trunc) = explore stp tids (fun _ -> true) s0 3000000 in
    let outs = Hashtbl.create 64 in
    let stuck = ref 0 in
    List.iter (fun s ->
      let o = show_outcome s ^ (if all_done s && coll_quiet s then "" else (incr stuck; " STUCK")) in
      Hashtbl.replace outs o ()) terms;
    let l = List.sort compare (Hashtbl.fold (fun k () acc -> k :: acc) outs []) in
    Printf.printf "%s states=%d trans=%d trunc=%b stuck=%d outcomes=%s\n" id nstates ntrans trunc !stuck
      (String.concat ";" l)
  | _ -> ())
