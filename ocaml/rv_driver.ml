(* C12 model driver.  stdin, one case per line:
     <id> V <type> <op2 token>...                      two vectors a, b (special member functions: swap swapstd cp?? mv??[d]
                                                        cc?? cx??<res> mc?? mx??<res><s|d>, ?? = ab | ba, see c12_reusable.cpp)
     <id> M <type> <interval> <cycles> <op token>...   one managed vector, the same workload every cycle
   type: i (int) c (counting) s (SwissString) n (nested) b (std::basic_string: destructive self-move)
   prints the canonical line the C++ drivers print, then " | e=<model ghost error>". *)
let ints s = if s = "" then [] else List.map (fun x -> z_of_int (int_of_string x)) (String.split_on_char ',' s)
let parse_op (f : string list) : op =
  let n k = nat_of_int (int_of_string (List.nth f k)) and v k = z_of_int (int_of_string (List.nth f k)) in
  match List.hd f with
  | "pb" -> PushBack (v 1) | "pop" -> PopBack
  | "ins" -> Insert (n 1, v 2) | "insn" -> InsertN (n 1, n 2, v 3) | "insr" -> InsertRange (n 1, ints (List.nth f 2))
  | "er" -> Erase (n 1, n 2) | "rs" -> Resize (n 1) | "rsv" -> ResizeV (n 1, v 2) | "res" -> Reserve (n 1)
  | "clr" -> Clear | "asn" -> AssignN (n 1, v 2) | "asr" -> AssignRange (ints (List.nth f 1))
  | "asc" -> AssignCount (n 1) | "set" -> SetAt (n 1, v 2)
  | t -> failwith ("bad op " ^ t)
let parse_op2 (tok : string) : op2 =
  match tok with
  | "swap" | "swapstd" -> Swap | "cpab" -> CopyAB | "cpba" -> CopyBA | "mvab" -> MoveAB | "mvba" -> MoveBA
  | "mvabd" -> MoveABx | "mvbad" -> MoveBAx
  | "ccab" | "cxab1" | "cxab2" -> CCtorAB | "ccba" | "cxba1" | "cxba2" -> CCtorBA
  | "mcab" -> MCtorAB | "mcba" -> MCtorBA
  | "mxab1s" | "mxab2s" -> MXCtorAB | "mxba1s" | "mxba2s" -> MXCtorBA
  | "mxab1d" | "mxab2d" -> MXCtorABx | "mxba1d" | "mxba2d" -> MXCtorBAx
  | _ -> (match String.split_on_char '.' tok with
          | "a" :: f -> OnA (parse_op f) | "b" :: f -> OnB (parse_op f) | _ -> failwith ("bad token " ^ tok))
let zl l = String.concat "," (List.map (fun z -> string_of_int (int_of_z z)) l)
let show (s : vec) =
  Printf.sprintf "%d/%d/%d[%s|%s]" (int_of_nat s.size) (int_of_nat s.csize) (int_of_nat s.cap) (zl (abs s)) (zl (stale s))
let elem ty =
  let id v = v and zero _ = Z0 in
  match ty with
  | "b" -> ((fun _ _ -> Z0), zero, zero)
  | "s" | "n" -> ((fun _ d -> d), zero, id)
  | _ -> ((fun s _ -> s), id, id)
let () = iter_lines (fun line ->
  match words line with
  | id :: "V" :: ty :: toks ->
    let (mva, mvc, smv) = elem ty in
    let buf = Buffer.create 256 in
    Buffer.add_string buf id;
    let p = ref (empty_vec, empty_vec) in
    List.iter (fun t ->
      p := step2 mva mvc smv !p (parse_op2 t);
      let (a, b) = !p in
      Buffer.add_string buf (Printf.sprintf " A=%s B=%s" (show a) (show b))) toks;
    let (a, b) = !p in
    Printf.printf "%s ; ctor=%d dtor=%d | e=%d\n" (Buffer.contents buf)
      (int_of_nat a.nctor + int_of_nat b.nctor) (int_of_nat a.ndtor + int_of_nat b.ndtor)
      (if a.err || b.err then 1 else 0)
  | id :: "M" :: ty :: itv :: cyc :: toks ->
    let (mva, mvc, smv) = elem ty in
    let ops = List.map (fun t -> parse_op (String.split_on_char '.' t)) toks in
    let buf = Buffer.create 256 in
    Buffer.add_string buf id;
    let g = ref (mgr_init (nat_of_int (int_of_string itv))) in
    let e = ref false in
    for _ = 1 to int_of_string cyc do
      let w = run mva mvc smv !g.inst ops in
      e := !e || w.err;
      Buffer.add_string buf (Printf.sprintf " W=%s" (show w));
      g := mclear { !g with inst = w };
      e := !e || !g.inst.err;
      Buffer.add_string buf (Printf.sprintf " C=%s" (show !g.inst))
    done;
    Printf.printf "%s | e=%d\n" (Buffer.contents buf) (if !e then 1 else 0)
  | _ -> ())
