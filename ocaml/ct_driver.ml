(* stdin: the same case lines the C++ driver gets: "<id> <kind> <op> ..." (kinds A S X N C); prints
   "<id> <token per op>" exactly as harness/seq/c19_counter.cpp prints before " | ". *)
let ten = z_of_int 10
let z_of_string (s : string) : z =
  let neg = String.length s > 0 && s.[0] = '-' in
  let acc = ref Z0 in
  String.iteri (fun i ch -> if not (i = 0 && neg) then
    acc := Z.add (Z.mul !acc ten) (z_of_int (Char.code ch - 48))) s;
  if neg then Z.opp !acc else !acc
let rec string_of_zpos (x : z) : string =
  if Z.ltb x ten then string_of_int (int_of_z x)
  else string_of_zpos (Z.div x ten) ^ string_of_int (int_of_z (Z.modulo x ten))
let string_of_z (x : z) : string =
  if Z.ltb x Z0 then "-" ^ string_of_zpos (Z.opp x) else string_of_zpos x

let after (s : string) (n : int) = String.sub s n (String.length s - n)
(* "12,34@5" -> (["12";"34"], 5) *)
let args (s : string) : string list * int =
  match String.split_on_char '@' s with
  | [a; t] -> (String.split_on_char ',' a, int_of_string t)
  | [a] -> (String.split_on_char ',' a, 0)
  | _ -> ([], 0)

let parse_op (w : string) : (op * string) option =
  let n = nat_of_int in
  let pre p = String.length w >= String.length p && String.sub w 0 (String.length p) = p in
  try
    if pre "sp" then Some (Spawn (n (int_of_string (after w 2))), "s")
    else if pre "ex" then Some (Exit (n (int_of_string (after w 2))), "x")
    else if pre "mv" then (match args (after w 2) with ([c; d], _) -> Some (CMove (n (int_of_string c), n (int_of_string d)), "m") | _ -> None)
    else if pre "mc" then (match args (after w 2) with ([c; d], _) -> Some (CMoveCtor (n (int_of_string c), n (int_of_string d)), "mc") | _ -> None)
    else if pre "fe" then (match args (after w 2) with ([c], _) -> Some (CForEach (n (int_of_string c)), "fe") | _ -> None)
    else if pre "fa" then (match args (after w 2) with ([c], _) -> Some (CAlive (n (int_of_string c), false), "fa") | _ -> None)
    else if pre "fc" then (match args (after w 2) with ([c], _) -> Some (CAlive (n (int_of_string c), true), "fc") | _ -> None)
    else if pre "n" then (match args (after w 1) with ([c], _) -> Some (CNew (n (int_of_string c)), "n") | _ -> None)
    else if pre "d" then (match args (after w 1) with ([c], _) -> Some (CDel (n (int_of_string c)), "d") | _ -> None)
    else if pre "b" then (match args (after w 1) with ([c; sm; nm], t) -> Some (CAdd2 (n t, n (int_of_string c), z_of_string sm, z_of_string nm), "b") | _ -> None)
    else if pre "a" then (match args (after w 1) with ([c; v], t) -> Some (CAdd (n t, n (int_of_string c), z_of_string v), "a") | _ -> None)
    else if pre "r" then (match args (after w 1) with ([c], _) -> Some (CRead (n (int_of_string c)), "r") | _ -> None)
    else if pre "z" then (match args (after w 1) with ([c], _) -> Some (CReset (n (int_of_string c)), "z") | _ -> None)
    else None
  with _ -> None

(* ops issued by a thread that is not alive are skipped by the harness: the model needs the thread for every
   instance operation only to mirror that ("@t" of n/d/mv/r/z/f ops) *)
let thread_of (w : string) : int option =
  match String.split_on_char '@' w with [_; t] -> (try Some (int_of_string t) with _ -> None) | _ -> None

let show (tag : string) (o : out) : string =
  match o with
  | OSkip -> "-"
  | ONone -> tag
  | OId k -> tag ^ "=" ^ string_of_int (int_of_nat k)
  | OSlot k -> tag ^ "=" ^ string_of_int (int_of_nat k)
  | OVal (a, b) -> tag ^ "=" ^ string_of_z a ^ "," ^ string_of_z b
  | OList None -> tag ^ "=OOB"
  | OList (Some l) -> tag ^ "=" ^ String.concat "," (List.map string_of_z l)

let () = iter_lines (fun line ->
  match words line with
  | id :: kind :: ops ->
    let k, cln, sz = match kind with
      | "A" -> KAdder, 64, 8 | "S" -> KSummer, 64, 16 | "X" -> KMaxer, 64, 16 | "N" -> KMiner, 64, 16
      | _ -> KAdder, 1, 8 in
    let cf = { cK = num_per_line (nat_of_int cln) (nat_of_int sz); cB = block_size; ck = k } in
    let x = ref (init_for k) in
    let alive = Hashtbl.create 16 in
    let buf = Buffer.create 256 in
    Buffer.add_string buf id;
    List.iter (fun w ->
      let tok = match parse_op w with
        | None -> "?"
        | Some (o, tag) ->
          let ok = match o, thread_of w with
            | (Spawn _ | Exit _), _ -> true
            | _, Some t -> Hashtbl.mem alive t
            | _, None -> false in
          if not ok then "-" else begin
            let (x', u) = step cf !x o in
            x := x';
            (match o, u with
             | Spawn t, ONone -> Hashtbl.replace alive (int_of_nat t) ()
             | Exit t, ONone -> Hashtbl.remove alive (int_of_nat t)
             | _ -> ());
            show tag u
          end in
      Buffer.add_char buf ' '; Buffer.add_string buf tok) ops;
    print_endline (Buffer.contents buf)
  | _ -> ())
