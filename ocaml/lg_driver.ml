(* stdin: one case per line "p n" ; bytes are b_i = (i*7+3) mod 251 ; prints the canonical line *)
let () = iter_lines (fun line ->
  match words line with
  | [ps; ns] ->
    let p = int_of_string ps and n = int_of_string ns in
    let bs = List.init n (fun i -> z_of_int ((i * 7 + 3) mod 251)) in
    let ((((e, sz), np), v), b) = observe (z_of_int p) bs in
    let iov = match v with
      | None -> "UB"
      | Some l -> String.concat "," (List.map (fun (a, len) -> Printf.sprintf "%d:%d" (int_of_z a) (int_of_z len)) l) in
    let ok = match b with Some l -> if l = bs then "1" else "0" | None -> "0" in
    Printf.printf "p=%d n=%d err=%d size=%d alloc=%d iov=%s bytes_ok=%s\n" p n (if e then 1 else 0)
      (int_of_z sz) (int_of_z np) iov ok
  | _ -> ())
