(* stdin: "<id> <tl|acc> <owners: o,o,.. or -> <program>"   program: threads '|', ops ',' :
     C<h> create  L<h> lock  U<h> unlock  X<h> release  G<h>:<t> give  R<h> read  D<h> use  K unlink  Z collect
   Prints every outcome the extracted model admits (all schedules). *)
let parse_op (o : string) : op =
  let n () = nat_of_int (int_of_string (String.sub o 1 (String.length o - 1))) in
  match o.[0] with
  | 'C' -> OCreate (n ()) | 'L' -> OLock (n ()) | 'U' -> OUnlock (n ()) | 'X' -> ORelease (n ())
  | 'R' -> ORead (n ()) | 'D' -> OUse (n ()) | 'K' -> OUnlink | 'Z' -> OCollect
  | 'G' ->
    (match String.split_on_char ':' (String.sub o 1 (String.length o - 1)) with
     | [h; t] -> OGive (nat_of_int (int_of_string h), nat_of_int (int_of_string t))
     | _ -> failwith ("bad op " ^ o))
  | _ -> failwith ("bad op " ^ o)

let show_z (x : z) : string =
  (* SLOT_IDLE = 2^64-1 does not fit an OCaml int: print it as M *)
  let rec bits (p : positive) : int = match p with XH -> 1 | XO q -> 1 + bits q | XI q -> 1 + bits q in
  match x with
  | Z0 -> "0"
  | Zpos p -> if bits p >= 62 then "M" else string_of_int (int_of_pos p)
  | Zneg p -> "-" ^ string_of_int (int_of_pos p)

let show_res (r : res) : string =
  match r with
  | RSkip -> "-" | RCreate -> "C" | RLock -> "L" | RUnlock -> "U" | RRelease -> "X" | RGive -> "G"
  | RRead o -> "r" ^ string_of_int (int_of_nat o)
  | RUse (o, b) -> "d" ^ string_of_int (int_of_nat o) ^ (if b then "!" else "")
  | RUnlink (o, t) -> "k" ^ string_of_int (int_of_nat o) ^ "@" ^ show_z t
  | RCollect (m, objs) -> "z" ^ show_z m ^ ":" ^ String.concat "." (List.map (fun o -> string_of_int (int_of_nat o)) objs)

let () = iter_lines (fun line ->
  match words line with
  | [id; mode; owners; prog] ->
    let progs = List.map (fun th -> List.map parse_op (List.filter (fun x -> x <> "") (String.split_on_char ',' th)))
        (String.split_on_char '|' prog) in
    let nt = List.length progs in
    let owners = if owners = "-" then [] else List.map (fun x -> nat_of_int (int_of_string x)) (String.split_on_char ',' owners) in
    let s0 = init (mode = "tl") O owners O [] O progs in
    let tids = List.init nt nat_of_int in
    let (terms, nstates, ntrans, trunc) = explore step tids (fun _ -> true) s0 3000000 in
    let outs = Hashtbl.create 64 in
    let stuck = ref 0 in
    List.iter (fun s ->
      if not (all_done s) then incr stuck;
      let (rs, uaf) = outcome s in
      let o = String.concat "|" (List.map (fun l -> String.concat "," (List.map show_res l)) rs) ^
              " uaf=" ^ (if uaf then "1" else "0") in
      Hashtbl.replace outs o ()) terms;
    let l = List.sort compare (Hashtbl.fold (fun k () acc -> k :: acc) outs []) in
    Printf.printf "%s states=%d trans=%d trunc=%b stuck=%d outcomes=%s\n" id nstates ntrans trunc !stuck
      (String.concat ";" l)
  | _ -> ())
