(* stdin: "<id> <capacity> <mode A|I> <faults|-> <program>"  program: threads '|', ops ',' : E (execute(T&&)) C (execute(const T&)) S J.
   Prints every outcome the extracted EQModel admits (all schedules).  Thread ids 0..nt-1 are the client threads,
   nt.. are consumer threads created by accepted launches (at most one per E/S op). *)
let parse_op (o : string) : op =
  match o.[0] with
  | 'E' -> OExec | 'C' -> OExecL | 'S' -> OSignal | 'J' -> OJoin
  | _ -> failwith ("bad op " ^ o)

let show_res (r : res) : string =
  match r with
  | RExec rc -> "E" ^ string_of_int (int_of_z rc)
  | RSignal rc -> "S" ^ string_of_int (int_of_z rc)
  | RJoin k -> "J" ^ string_of_int (int_of_nat k)

let () = iter_lines (fun line ->
  match words line with
  | [id; capacity; mode; flt; prog] ->
    let progs = List.map (fun th -> List.map parse_op (List.filter (fun x -> x <> "") (String.split_on_char ',' th)))
        (String.split_on_char '|' prog) in
    let nt = List.length progs in
    let nsig = List.fold_left (fun a p -> a + List.length (List.filter (fun o -> o <> OJoin) p)) 0 progs in
    let faults = if flt = "-" then [] else List.map (fun c -> c = '1') (List.of_seq (String.to_seq flt)) in
    let s0 = init (nat_of_int (int_of_string capacity)) (mode = "A") faults progs in
    let tids = List.init (nt + nsig) nat_of_int in
    let max_inside = ref 0 in
    let step' s t = (let i = int_of_nat (inside s) in if i > !max_inside then max_inside := i); step s t in
    let (terms, nstates, ntrans, trunc) = explore step' tids (fun _ -> true) s0 3000000 in
    let outs = Hashtbl.create 64 in
    let stuck = ref 0 in
    List.iter (fun s ->
      if not (all_done s) then incr stuck;
      let (rs, del) = outcome (nat_of_int nt) s in
      let o = String.concat "|" (List.map (fun l -> String.concat "," (List.map show_res l)) rs) ^ " del=" ^
              String.concat "," (List.map (fun (a, b) -> Printf.sprintf "%d.%d" (int_of_nat a) (int_of_nat b)) del) ^
              (if stale s then " stale=1" else " stale=0") ^
              (if all_done s then "" else " STUCK") in
      Hashtbl.replace outs o ()) terms;
    let l = List.sort compare (Hashtbl.fold (fun k () acc -> k :: acc) outs []) in
    Printf.printf "%s states=%d trans=%d trunc=%b stuck=%d maxinside=%d outcomes=%s\n" id nstates ntrans trunc !stuck
      !max_inside (String.concat ";" l)
  | _ -> ())
