(* spliced after zutil.ml: exhaustive exploration of an extracted interleaving machine.
   step : 'st -> nat -> 'st option ; thread ids 0..nt-1 (pseudo threads included by the caller).
   Returns (terminal states, number of states, number of transitions, truncated). *)
module StH = Hashtbl.Make (struct
  type t = Obj.t
  let equal a b = compare a b = 0
  let hash x = Hashtbl.hash_param 250 600 x
end)

let explore (step : 'st -> nat -> 'st option) (tids : nat list) (is_real : nat -> bool) (init : 'st)
    (max_states : int) : 'st list * int * int * bool =
  let seen = StH.create 65536 in
  let stack = Stack.create () in
  let terminals = ref [] and ntrans = ref 0 and truncated = ref false in
  StH.replace seen (Obj.repr init) ();
  Stack.push init stack;
  while not (Stack.is_empty stack) do
    let s = Stack.pop stack in
    let real_enabled = ref false in
    List.iter (fun t ->
      match step s t with
      | None -> ()
      | Some s' ->
        incr ntrans;
        if is_real t then real_enabled := true;
        if not (StH.mem seen (Obj.repr s')) then begin
          if StH.length seen >= max_states then truncated := true
          else begin StH.replace seen (Obj.repr s') (); Stack.push s' stack end
        end) tids;
    if not !real_enabled then terminals := s :: !terminals
  done;
  (!terminals, StH.length seen, !ntrans, !truncated)
